------------------------------- MODULE BigDec -------------------------------
(***************************************************************************)
(* Natural numbers beyond TLC's 32-bit integers, as sequences of decimal   *)
(* digits (values 0..9), most significant first.  The canonical form has   *)
(* no leading zero except for zero itself, which is <<0>>.                 *)
(* MC_BigDec ties every operator to native arithmetic on small values.     *)
(***************************************************************************)
EXTENDS Integers, Sequences

BIsDigits(a) == Len(a) >= 1 /\ \A i \in 1..Len(a) : a[i] \in 0..9
BIsCanon(a)  == BIsDigits(a) /\ (Len(a) = 1 \/ a[1] # 0)

RECURSIVE BNorm(_)
BNorm(a) == IF Len(a) > 1 /\ a[1] = 0 THEN BNorm(Tail(a)) ELSE IF a = <<>> THEN <<0>> ELSE a

BZero == <<0>>
BIsZero(a) == BNorm(a) = BZero

\* lexicographic comparison of equal-length digit sequences: -1, 0, 1
RECURSIVE BLexCmp(_, _)
BLexCmp(a, b) == IF a = <<>> THEN 0
                ELSE IF a[1] < b[1] THEN -1 ELSE IF a[1] > b[1] THEN 1
                ELSE BLexCmp(Tail(a), Tail(b))

BCmp(a, b) == LET x == BNorm(a)  y == BNorm(b) IN
             IF Len(x) < Len(y) THEN -1 ELSE IF Len(x) > Len(y) THEN 1 ELSE BLexCmp(x, y)
BLe(a, b) == BCmp(a, b) <= 0
BLt(a, b) == BCmp(a, b) < 0

\* from / to native integers (n >= 0)
RECURSIVE BFromInt(_)
BFromInt(n) == IF n < 10 THEN <<n>> ELSE Append(BFromInt(n \div 10), n % 10)
RECURSIVE BToInt(_)
BToInt(a) == IF a = <<>> THEN 0 ELSE BToInt(SubSeq(a, 1, Len(a) - 1)) * 10 + a[Len(a)]

\* a * k + c for 0 <= k, c < 2^20 (every intermediate stays below 2^31)
RECURSIVE BMulAddRev(_, _, _)
BMulAddRev(a, k, c) ==     \* a given most significant first; processes from the right
  IF a = <<>> THEN (IF c = 0 THEN <<>> ELSE BFromInt(c))
  ELSE LET v == a[Len(a)] * k + c IN
       Append(BMulAddRev(SubSeq(a, 1, Len(a) - 1), k, v \div 10), v % 10)
BMulSmall(a, k) == BNorm(BMulAddRev(a, k, 0))
BAddSmall(a, c) == BNorm(BMulAddRev(a, 1, c))

\* quotient and remainder of a by 0 < k < 2^20
RECURSIVE BDivStep(_, _, _, _)
BDivStep(a, k, i, r) ==    \* returns <<quotient digits from position i on, remainder>>
  IF i > Len(a) THEN <<<<>>, r>>
  ELSE LET v == r * 10 + a[i]
           rest == BDivStep(a, k, i + 1, v % k) IN
       << <<v \div k>> \o rest[1], rest[2] >>
BDivSmall(a, k) == LET r == BDivStep(a, k, 1, 0) IN [q |-> BNorm(r[1]), r |-> r[2]]

\* a + b
RECURSIVE BAddRev(_, _, _)
BAddRev(a, b, c) ==
  IF a = <<>> /\ b = <<>> THEN (IF c = 0 THEN <<>> ELSE <<c>>)
  ELSE LET x == IF a = <<>> THEN 0 ELSE a[Len(a)]
           y == IF b = <<>> THEN 0 ELSE b[Len(b)]
           v == x + y + c
           ra == IF a = <<>> THEN <<>> ELSE SubSeq(a, 1, Len(a) - 1)
           rb == IF b = <<>> THEN <<>> ELSE SubSeq(b, 1, Len(b) - 1)
       IN Append(BAddRev(ra, rb, v \div 10), v % 10)
BAdd(a, b) == BNorm(BAddRev(a, b, 0))

RECURSIVE BPow(_, _)
BPow(k, e) == IF e = 0 THEN <<1>> ELSE BMulSmall(BPow(k, e - 1), k)

U64Max == <<1, 8, 4, 4, 6, 7, 4, 4, 0, 7, 3, 7, 0, 9, 5, 5, 1, 6, 1, 5>>    \* 2^64 - 1
I64Max == <<9, 2, 2, 3, 3, 7, 2, 0, 3, 6, 8, 5, 4, 7, 7, 5, 8, 0, 7>>       \* 2^63 - 1
FitsU64(a) == BLe(a, U64Max)

\* decimal text of a canonical number as a string
RECURSIVE DigStr(_)
DigStr(a) == IF a = <<>> THEN "" ELSE SubSeq("0123456789", a[1] + 1, a[1] + 1) \o DigStr(Tail(a))
\* ASCII digit bytes <-> digit values
AsciiOf(a) == [i \in 1..Len(a) |-> a[i] + 48]
OfAscii(t) == [i \in 1..Len(t) |-> t[i] - 48]

=============================================================================
