-------------------------------- MODULE Util --------------------------------
(***************************************************************************)
(* The whole library as ONE system: the composition of the five package    *)
(* state machines (configuration variables and receivers of date, roman,   *)
(* sem, size, uu).  Next is the disjunction of all public operations with  *)
(* arguments drawn from small candidate sets, so that TLC can explore or    *)
(* simulate interleavings of configuration changes and calls ACROSS         *)
(* packages.  Each step also appends the request it stands for to hist;     *)
(* simulated behaviours are exported through hist and replayed on the real  *)
(* code, whose recorded events are then validated by Trace.tla.             *)
(*                                                                         *)
(* Cross-package conventions stated once here:                              *)
(*   Isolation   an operation of one package changes no other package's    *)
(*               variables (configuration is per package);                 *)
(*   LimitFirst  with a non-zero maximum every longer input is refused as  *)
(*               too long by every parser;                                 *)
(*   KeepOnFail  a failing Unmarshal* leaves the receiver unchanged.        *)
(***************************************************************************)
EXTENDS Date, Roman, Sem, Size, UU

VARIABLE hist
uvarsAll == <<dvars, rvars, svars, zvars, uvars>>

S(x) == StrToSeq(x)
DateTexts  == {S("2024-02-29"), S("20240229"), S("2023-02-29"), S("10000-01-01"), S("2024-1-1"), <<>>}
RomanTexts == {S("MCMXCIV"), S("iv"), S("IIII"), S("IIIII"), S("MMMM"), <<>>}
SemTexts   == {S("1.2.3"), S("v1.2.3-rc.1+b"), S("1.2"), S("01.2.3"), S("1.2.3-beta.11"), <<>>}
SizeTexts  == {S("1KiB"), S("12 345 B"), S("16EiB"), S("1XB"), S("1024"), <<>>}
UUTexts    == {S("123e4567-e89b-12d3-a456-426614174000"), S("urn:uuid:123e4567-e89b-12d3-a456-426614174000"),
               S("123E4567-E89B-12D3-A456-426614174000"), S("123e4567-e89b-12d3-a456-42661417400"), <<>>}

Req(r) == hist' = Append(hist, r)

UtilInit == DateInit /\ RomanInit /\ SemInit /\ SizeInit /\ UUInit /\ hist = <<>>

DateOps ==
  \/ \E n \in {0, 8, 10, 15} : DateSetMax(n) /\ Req([op |-> "date.set", max |-> n])
  \/ \E t \in DateTexts, r \in {0, 1} : DateParse(t, r) /\ Req([op |-> "date.parse", in |-> t, rule |-> r, T |-> "s"])
  \/ \E t \in DateTexts : DateUnmarshalText(t) /\ Req([op |-> "date.utext", in |-> t])
RomanOps ==
  \/ \E n \in {0, 3, 128}, f \in {0, 63, 64} : RomanSet(n, f) /\ Req([op |-> "roman.set", max |-> n, fmt |-> f])
  \/ \E t \in RomanTexts, r \in {0, 1} : RomanParse(t, r) /\ Req([op |-> "roman.parse", in |-> t, rule |-> r, T |-> "b"])
  \/ \E t \in RomanTexts : RomanUnmarshalText(t) /\ Req([op |-> "roman.utext", in |-> t])
  \/ \E n \in {0, 4, 1994, 3888} : RomanMarshalText(n) /\ Req([op |-> "roman.paths", n |-> n])
SemOps ==
  \/ \E n \in {0, 5, 1024} : SemSetMax(n) /\ Req([op |-> "sem.set", max |-> n])
  \/ \E t \in SemTexts, fn \in {"Parse", "ParseVersion", "ParseTag"} :
        SemParse(t, fn, 0) /\ Req([op |-> "sem.parse", in |-> t, fn |-> fn, rule |-> 0, T |-> "s"])
  \/ \E t \in SemTexts : SemUnmarshalText(t) /\ Req([op |-> "sem.utext", in |-> t])
SizeOps ==
  \/ \E n \in {0, 4, 128}, r \in {0, 1, 6, 7} :
        SizeSet(zSw, r, n, zKeys) /\ Req([op |-> "size.set", dmtu |-> zSw.dmtu, dmjs |-> zSw.dmjs, dmjo |-> zSw.dmjo,
                                             rule |-> r, max |-> n, keys |-> zKeys])
  \/ \E t \in SizeTexts, r \in {0, 1} :
        SizeParse(t, r, [k |-> "other"], FALSE) /\ Req([op |-> "size.parse", in |-> t, rule |-> r, T |-> "s"])
  \/ \E t \in SizeTexts : SizeUnmarshalText(t) /\ Req([op |-> "size.utext", in |-> t])
UUOps ==
  \/ \E n \in {0, 36, 45} : UUSetMax(n) /\ Req([op |-> "uu.set", max |-> n])
  \/ \E t \in UUTexts, r \in 0..3 : UUParse(t, r) /\ Req([op |-> "uu.parse", in |-> t, rule |-> r, T |-> "b"])
  \/ \E t \in UUTexts : UUUnmarshalText(t) /\ Req([op |-> "uu.utext", in |-> t])

UtilNext ==
  \/ DateOps  /\ UNCHANGED <<rvars, svars, zvars, uvars>>
  \/ RomanOps /\ UNCHANGED <<dvars, svars, zvars, uvars>>
  \/ SemOps   /\ UNCHANGED <<dvars, rvars, zvars, uvars>>
  \/ SizeOps  /\ UNCHANGED <<dvars, rvars, svars, uvars>>
  \/ UUOps    /\ UNCHANGED <<dvars, rvars, svars, zvars>>

UtilSpec == UtilInit /\ [][UtilNext]_<<uvarsAll, hist>>

(***************************************************************************)
(* Conventions (checked exhaustively to a small depth by MC_Util and       *)
(* relied upon by the trace specification)                                 *)
(***************************************************************************)
\* the part of each package's state that other calls could depend on (returns excluded)
dcore == <<dMax, dRecv, dFilt, dVars>>
rcore == <<rMax, rFmt, rRecv>>
score == <<sMax, sRecv, sUniv>>
zcore == <<zSw, zRule, zMax, zKeys, zRecv>>
ucore == <<uMax, uRecv>>
Isolation == [][ /\ (dcore' # dcore => UNCHANGED <<rcore, score, zcore, ucore>>)
                 /\ (rcore' # rcore => UNCHANGED <<dcore, score, zcore, ucore>>)
                 /\ (score' # score => UNCHANGED <<dcore, rcore, zcore, ucore>>)
                 /\ (zcore' # zcore => UNCHANGED <<dcore, rcore, score, ucore>>)
                 /\ (ucore' # ucore => UNCHANGED <<dcore, rcore, score, zcore>>) ]_<<uvarsAll, hist>>

KeepOnFail == [][ /\ (dRecv' # dRecv => IsOk(dRet'))
                  /\ (rRecv' # rRecv => IsOk(rRet'))
                  /\ (sRecv' # sRecv => IsOk(sRet'))
                  /\ (zRecv' # zRecv => IsOk(zRet'))
                  /\ (uRecv' # uRecv => IsOk(uRet')) ]_<<uvarsAll, hist>>

TypeOK == /\ ValidDate(dRecv) /\ rRecv \in Nat /\ IsID(uRecv) /\ BIsCanon(zRecv) /\ FitsU64(zRecv)
          /\ ValidVer(sRecv)
=============================================================================
