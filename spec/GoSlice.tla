------------------------------- MODULE GoSlice -------------------------------
(***************************************************************************)
(* A model of Go byte slices sufficient for the formatter append contract  *)
(* (C16): a slice is a window [off+1 .. off+len] with capacity cap into a  *)
(* backing array; append writes in place when the capacity allows and      *)
(* otherwise copies into a fresh array.  The heap maps array ids to their  *)
(* contents.                                                               *)
(***************************************************************************)
EXTENDS Integers, Sequences, FiniteSets, TLC

Slice(arr, len, cap) == [arr |-> arr, len |-> len, cap |-> cap]
BytesOf(heap, s) == SubSeq(heap[s.arr], 1, s.len)

\* append(s, bs...) : returns <<new heap, new slice>>
AppendBytes(heap, s, bs) ==
  IF s.len + Len(bs) <= s.cap
  THEN << [heap EXCEPT ![s.arr] = SubSeq(@, 1, s.len) \o bs \o SubSeq(@, s.len + Len(bs) + 1, Len(@))],
          Slice(s.arr, s.len + Len(bs), s.cap) >>
  ELSE LET id == Cardinality(DOMAIN heap) + 1
           data == SubSeq(heap[s.arr], 1, s.len) \o bs IN
       << heap @@ (id :> data), Slice(id, Len(data), Len(data)) >>

\* in-place map over the first n bytes of a slice's array (what a post-processing pass does)
MapInPlace(heap, s, n, F(_)) == [heap EXCEPT ![s.arr] = [i \in 1..Len(@) |-> IF i <= n THEN F(@[i]) ELSE @[i]]]

=============================================================================
