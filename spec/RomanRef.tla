------------------------------ MODULE RomanRef ------------------------------
(***************************************************************************)
(* Reference semantics of package roman (pure operators).                  *)
(*                                                                         *)
(* Formatting is specified by RULE, not by table: thousands as repeated M; *)
(* each remaining decimal digit v of a position with symbols               *)
(* (one, five, ten) is                                                     *)
(*    0..3 : v ones          4 : one five   (additive: four ones)          *)
(*    5..8 : five, v-5 ones  9 : one ten    (additive: five, four ones)    *)
(* where the additive form is chosen by the matching long-form flag; the   *)
(* lower-case flag changes only the letter case; zero is the empty text.   *)
(*                                                                         *)
(* The parser's language is the set of texts M* H T U, each group either   *)
(* additive (optional five, then 0..4 ones) or subtractive (one five / one *)
(* ten), case-insensitively; the value is the sum of the group values.     *)
(* Two definitions are given: RomanSplit (existential over split points)   *)
(* and RomanScan (a greedy left-to-right scanner); MC_C10 checks that they *)
(* agree on every string of the bounded domain.                            *)
(***************************************************************************)
EXTENDS Bytes, Expect

FLong4 == 1  FLong40 == 2  FLong400 == 4  FLong9 == 8  FLong90 == 16  FLong900 == 32  FLower == 64

RuleDisableEmptyAsZero == 1

(***************************************************************************)
(* Formatter                                                               *)
(***************************************************************************)
DigitStr(v, one, five, ten, long4, long9) ==
  IF v <= 3 THEN Rep(one, v)
  ELSE IF v = 4 THEN (IF long4 THEN Rep(one, 4) ELSE one \o five)
  ELSE IF v <= 8 THEN five \o Rep(one, v - 5)
  ELSE (IF long9 THEN five \o Rep(one, 4) ELSE one \o ten)

\* letters: <<I, V, X, L, C, D, M>>
Upper7 == <<"I", "V", "X", "L", "C", "D", "M">>
Lower7 == <<"i", "v", "x", "l", "c", "d", "m">>

TailStr(n, f) ==         \* the part below 1000
  LET L == IF Bit(f, FLower) THEN Lower7 ELSE Upper7
      r == n % 1000 IN
  DigitStr(r \div 100, L[5], L[6], L[7], Bit(f, FLong400), Bit(f, FLong900))
  \o DigitStr((r \div 10) % 10, L[3], L[4], L[5], Bit(f, FLong40), Bit(f, FLong90))
  \o DigitStr(r % 10, L[1], L[2], L[3], Bit(f, FLong4), Bit(f, FLong9))

Thousands(n, f) == Rep(IF Bit(f, FLower) THEN "m" ELSE "M", n \div 1000)

FmtRoman(n, f) == Thousands(n, f) \o TailStr(n, f)

(***************************************************************************)
(* Parser language and value                                               *)
(***************************************************************************)
cI == 73  cV == 86  cX == 88  cL == 76  cC == 67  cD == 68  cM == 77

UpperSeq(t) == [i \in 1..Len(t) |-> ToUpperB(t[i])]

AllOf(g, c) == \A i \in 1..Len(g) : g[i] = c

\* value 0..9 of a group text over (one, five, ten), or -1 if it is not a group
GroupVal(g, one, five, ten) ==
  LET n == Len(g) IN
  IF n = 0 THEN 0
  ELSE IF n <= 4 /\ AllOf(g, one) THEN n
  ELSE IF n <= 5 /\ g[1] = five /\ AllOf(Tail(g), one) THEN 4 + n
  ELSE IF n = 2 /\ g[1] = one /\ g[2] = five THEN 4
  ELSE IF n = 2 /\ g[1] = one /\ g[2] = ten THEN 9
  ELSE -1

\* definition 1: there exist split points
RomanSplit(u) ==        \* u: upper-cased bytes; result: value or -1
  LET n == Len(u)
      S == {<<a, b, c>> \in (0..n) \X (0..n) \X (0..n) :
              /\ a <= b /\ b <= c
              /\ AllOf(SubSeq(u, 1, a), cM)
              /\ GroupVal(SubSeq(u, a + 1, b), cC, cD, cM) >= 0
              /\ GroupVal(SubSeq(u, b + 1, c), cX, cL, cC) >= 0
              /\ GroupVal(SubSeq(u, c + 1, n), cI, cV, cX) >= 0}
  IN IF S = {} THEN -1
     ELSE LET p == CHOOSE q \in S : TRUE IN
          1000 * p[1] + 100 * GroupVal(SubSeq(u, p[1] + 1, p[2]), cC, cD, cM)
          + 10 * GroupVal(SubSeq(u, p[2] + 1, p[3]), cX, cL, cC)
          + GroupVal(SubSeq(u, p[3] + 1, n), cI, cV, cX)
SplitCount(u) ==
  LET n == Len(u) IN
  Cardinality({<<a, b, c>> \in (0..n) \X (0..n) \X (0..n) :
              /\ a <= b /\ b <= c
              /\ AllOf(SubSeq(u, 1, a), cM)
              /\ GroupVal(SubSeq(u, a + 1, b), cC, cD, cM) >= 0
              /\ GroupVal(SubSeq(u, b + 1, c), cX, cL, cC) >= 0
              /\ GroupVal(SubSeq(u, c + 1, n), cI, cV, cX) >= 0})

\* definition 2: greedy scanner.  Run(u, i, c) = number of consecutive c from position i
RECURSIVE Run(_, _, _)
Run(u, i, c) == IF i <= Len(u) /\ u[i] = c THEN 1 + Run(u, i + 1, c) ELSE 0

At(u, i) == IF i <= Len(u) THEN u[i] ELSE 0

\* scan one group at position i: returns <<value, next position>> or <<-1, i>>
ScanGroup(u, i, one, five, ten) ==
  IF At(u, i) = five THEN
       LET k == Run(u, i + 1, one) IN IF k <= 4 THEN <<5 + k, i + 1 + k>> ELSE <<-1, i>>
  ELSE IF At(u, i) = one /\ At(u, i + 1) = five THEN <<4, i + 2>>
  ELSE IF At(u, i) = one /\ At(u, i + 1) = ten THEN <<9, i + 2>>
  ELSE LET k == Run(u, i, one) IN IF k <= 4 THEN <<k, i + k>> ELSE <<-1, i>>

RomanScan(u) ==
  LET m == Run(u, 1, cM)
      \* a trailing M of the M-run may belong to "CM" only if preceded by C, which is not M: no overlap
      h == ScanGroup(u, m + 1, cC, cD, cM) IN
  IF h[1] < 0 THEN -1 ELSE
  LET t == ScanGroup(u, h[2], cX, cL, cC) IN
  IF t[1] < 0 THEN -1 ELSE
  LET un == ScanGroup(u, t[2], cI, cV, cX) IN
  IF un[1] < 0 \/ un[2] # Len(u) + 1 THEN -1
  ELSE 1000 * m + 100 * h[1] + 10 * t[1] + un[1]

RomanValue(t) == RomanScan(UpperSeq(t))

ParseRomanRef(t, rule, max) ==
  IF Len(t) = 0 THEN
       (IF Bit(rule, RuleDisableEmptyAsZero) THEN Fail({}, {}, NotTooLong) ELSE Ok(0))
  ELSE IF max # 0 /\ Len(t) > max THEN Fail({"ErrInputTooLong"}, {}, {})
  ELSE LET v == RomanValue(t) IN
       IF v >= 0 THEN Ok(v) ELSE Fail({}, {}, NotTooLong)

=============================================================================
