------------------------------- MODULE DateRef -------------------------------
(***************************************************************************)
(* Reference semantics of package date (pure operators; the state machine  *)
(* is module Date): FmtDate (constructive), DateShape / ParseDateRef       *)
(* (declarative, positional), binary codec, ordering, arithmetic, filter.  *)
(***************************************************************************)
EXTENDS Bytes, Calendar, Expect

RuleDisableBasic == 1

ZeroDate == D(1, 1, 1)

(***************************************************************************)
(* Formatting (C01).  Years 0..999 999 999; zero padded to at least 4.     *)
(***************************************************************************)
FmtDate(x, basic) ==
  IF basic THEN Pad(x.y, 4) \o Pad(x.m, 2) \o Pad(x.d, 2)
  ELSE Pad(x.y, 4) \o "-" \o Pad(x.m, 2) \o "-" \o Pad(x.d, 2)

JsonOf(x) == "\"" \o FmtDate(x, FALSE) \o "\""
XmlOf(x)  == "<Date>" \o FmtDate(x, FALSE) \o "</Date>"

(***************************************************************************)
(* The text language (C09): 4..9 year digits, then MM and DD, separators   *)
(* both present or both absent.  DateShape classifies a byte sequence.     *)
(***************************************************************************)
DateShape(t) ==
  LET L == Len(t) IN
  IF L >= 8 /\ L <= 13 /\ AllDigits(t)
    THEN [k |-> "basic", y |-> SubSeq(t, 1, L - 4),
          m |-> SubSeq(t, L - 3, L - 2), d |-> SubSeq(t, L - 1, L)]
  ELSE IF /\ L >= 10 /\ L <= 15
          /\ t[L - 2] = Hyphen /\ t[L - 5] = Hyphen
          /\ AllDigits(SubSeq(t, 1, L - 6))
          /\ AllDigits(SubSeq(t, L - 4, L - 3))
          /\ AllDigits(SubSeq(t, L - 1, L))
    THEN [k |-> "ext", y |-> SubSeq(t, 1, L - 6),
          m |-> SubSeq(t, L - 4, L - 3), d |-> SubSeq(t, L - 1, L)]
  ELSE [k |-> "none"]

\* second, existential definition of the same language (used by MC_C09 to
\* cross-check DateShape): the text is ydigits sep mm sep dd for some split
DateLangEx(t) ==
  \E n \in 4..9 : \E sep \in {0, 1} :
     /\ Len(t) = n + 4 + 2 * sep
     /\ \A i \in 1..n : IsDigit(t[i])
     /\ sep = 1 => t[n + 1] = Hyphen /\ t[n + 4] = Hyphen
     /\ IsDigit(t[n + sep + 1]) /\ IsDigit(t[n + sep + 2])
     /\ IsDigit(t[n + 2 * sep + 3]) /\ IsDigit(t[n + 2 * sep + 4])

ParseDateRef(t, rule, max) ==
  IF Len(t) = 0 THEN Fail({}, {}, NotTooLong)
  ELSE IF max # 0 /\ Len(t) > max THEN Fail({"ErrInputTooLong"}, {}, {})
  ELSE LET s == DateShape(t) IN
    IF s.k = "none" THEN Fail({}, {}, NotTooLong)
    ELSE LET y == DigitsVal(s.y)  m == DigitsVal(s.m)  d == DigitsVal(s.d)
             valid == ValidYMD(y, m, d) IN
      IF s.k = "basic" /\ Bit(rule, RuleDisableBasic)
        THEN IF valid THEN Fail({"ErrBasicFormatDisabled"}, {}, NotTooLong)
                      ELSE Fail({}, {}, NotTooLong)
      ELSE IF valid THEN Ok(D(y, m, d))
      ELSE Fail({}, {}, NotTooLong)

(***************************************************************************)
(* Binary codec (C11): version 1, year as big-endian signed 32 bit, month, *)
(* day.  32-bit safe byte arithmetic for negative years.                   *)
(***************************************************************************)
YearBytes(y) ==
  IF y >= 0 THEN << y \div 16777216, (y \div 65536) % 256, (y \div 256) % 256, y % 256 >>
  ELSE LET u == (y + 2147483647) + 1 IN     \* y + 2^31 >= 0
       << 128 + (u \div 16777216), (u \div 65536) % 256, (u \div 256) % 256, u % 256 >>

BytesYear(b) ==      \* b = four bytes
  IF b[1] < 128 THEN ((b[1] * 256 + b[2]) * 256 + b[3]) * 256 + b[4]
  ELSE ((((b[1] - 128) * 256 + b[2]) * 256 + b[3]) * 256 + b[4] - 2147483647) - 1

BinEncode(x) == <<1>> \o YearBytes(x.y) \o <<x.m, x.d>>

\* "validdate" : the property only demands "an error, or a real calendar date"
BinDecodeRef(b) ==
  IF Len(b) = 0 THEN Fail({"ErrInvalidLength"}, {}, {})
  ELSE IF b[1] # 1 THEN
      IF Len(b) # 7 THEN Fail({}, {"ErrInvalidLength", "ErrUnsupportedVersion"}, {})
      ELSE Fail({"ErrUnsupportedVersion"}, {}, {})
  ELSE IF Len(b) # 7 THEN Fail({"ErrInvalidLength"}, {}, {})
  ELSE LET y == BytesYear(SubSeq(b, 2, 5)) IN
       IF ValidYMD(y, b[6], b[7]) THEN Ok(D(y, b[6], b[7]))
       ELSE [k |-> "failorvalid"]

(***************************************************************************)
(* Order and arithmetic (C07)                                              *)
(***************************************************************************)
Before(a, b) == Lt(a, b)
After(a, b)  == Lt(b, a)
Equal(a, b)  == a = b
SubDays(a, b) == Ord(a) - Ord(b)                 \* a.Sub(b) / 24h ; a.DaysBetween(b)
DurationRangeDays == 106751                      \* floor((2^63-1) ns / 24 h)

\* AddDuration: the duration is given as whole days q (floor) and a remainder
\* 0 <= r < 24 h that cannot change the date of a midnight
AddDurDays(x, q) == Civil(Ord(x) + q)

(***************************************************************************)
(* Range filter (C15)                                                      *)
(***************************************************************************)
NoDate == [none |-> TRUE]
IsNone(x) == "none" \in DOMAIN x

FilterBuildRef(from, to) ==
  IF ~IsNone(from) /\ ~IsNone(to) /\ Lt(to, from)
    THEN Fail({"ErrInvalidFromOrTo"}, {}, {})
    ELSE Ok([from |-> from, to |-> to])

FContains(f, p) == /\ (IsNone(f.from) \/ ~Lt(p, f.from))
                   /\ (IsNone(f.to) \/ ~Lt(f.to, p))

=============================================================================
