----------------------------- MODULE TraceHelper -----------------------------
(* Binding of helper.run events (package test) to module TestHelper.       *)
EXTENDS TestHelper, TraceBase

HelperDemands(e) ==
  LET want == ListVerdict(e.dir, e.iface, e.cases, CaseFails)
      lib  == ListVerdict(e.dir, e.iface, e.cases, CaseFailsLib)
      agrees(v) == v.k = "any" \/ (e.failed = (v.k = "fail"))
  IN <<
    <<"C20.nopanic", ~e.escaped>>,
    \* a disagreement that is exactly the named deviation (ErrorMatch silent on a non-matching
    \* valid pattern) gets its own code, so that any other disagreement is still reported
    <<"C20.verdict.errormatch_silent", agrees(want) \/ ~agrees(lib)>>,
    <<"C20.verdict", agrees(want) \/ agrees(lib)>>
  >>

HelperStep(e) == Note(HelperDemands(e))
IsHelperOp(e) == e.op = "helper.run"
=============================================================================
