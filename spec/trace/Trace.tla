-------------------------------- MODULE Trace --------------------------------
(* Universal trace specification: dispatches every event to its package.   *)
EXTENDS TraceDate, TraceRoman, TraceUU, TraceSem, TraceSize, TraceCross, TraceRandom, TraceHelper, TraceOverride

allvars == <<dvars, rvars, uvars, svars, zvars, qvars, ovars>>

TraceInit == TraceBaseInit /\ DateInit /\ RomanInit /\ UUInit /\ SemInit /\ SizeInit /\ RandomInit /\ OverrideInit

TraceNext ==
  \/ /\ l <= Len(Trace)
     /\ LET e == Trace[l] IN
          \/ IsDateOp(e)   /\ DateStep(e)   /\ UNCHANGED <<rvars, uvars, svars, zvars, qvars, ovars>>
          \/ IsRomanOp(e)  /\ RomanStep(e)  /\ UNCHANGED <<dvars, uvars, svars, zvars, qvars, ovars, ctx>>
          \/ IsUUOp(e)     /\ UUStep(e)     /\ UNCHANGED <<dvars, rvars, svars, zvars, qvars, ovars, ctx>>
          \/ IsSemOp(e)    /\ SemStep(e)    /\ UNCHANGED <<dvars, rvars, uvars, zvars, qvars, ovars, ctx>>
          \/ IsSizeOp(e)   /\ SizeStep(e)   /\ UNCHANGED <<dvars, rvars, uvars, svars, qvars, ovars, ctx>>
          \/ IsCrossOp(e)  /\ CrossStep(e)  /\ UNCHANGED <<allvars, ctx>>
          \/ IsRandomOp(e) /\ RandomStep(e) /\ UNCHANGED <<dvars, rvars, uvars, svars, zvars, ovars, ctx>>
          \/ IsHelperOp(e) /\ HelperStep(e) /\ UNCHANGED <<allvars, ctx>>
          \/ IsOverrideOp(e) /\ OverrideStep(e) /\ UNCHANGED <<dvars, rvars, uvars, svars, zvars, qvars, ctx>>
          \* util.reset: every package back to its initial state (configuration and receiver)
          \/ /\ e.op = "util.reset"
             /\ dMax' = 10 /\ dRecv' = ZeroDate /\ dRet' = [k |-> "unit"] /\ UNCHANGED <<dFilt, dVars>>
             /\ rMax' = 128 /\ rFmt' = 0 /\ rRecv' = 0 /\ rRet' = [k |-> "unit"]
             /\ sMax' = 1024 /\ sRecv' = ZeroVer /\ sRet' = [k |-> "unit"] /\ UNCHANGED sUniv
             /\ zSw' = [dmtu |-> FALSE, dmjs |-> FALSE, dmjo |-> FALSE] /\ zRule' = 6 /\ zMax' = 128 /\ zKeys' = 16
             /\ zRecv' = BZero /\ zRet' = [k |-> "unit"]
             /\ uMax' = 45 /\ uRecv' = ZeroID /\ uRet' = [k |-> "unit"]
             /\ UNCHANGED <<qvars, ovars, ctx>> /\ Note(<<>>)
     /\ l' = l + 1
  \/ Finish /\ UNCHANGED allvars

TraceSpec == TraceInit /\ [][TraceNext]_<<tvars, allvars>>
=============================================================================
