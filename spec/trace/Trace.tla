-------------------------------- MODULE Trace --------------------------------
(* Universal trace specification: dispatches every event to its package.   *)
EXTENDS TraceDate, TraceRoman

TraceInit == TraceBaseInit /\ DateInit /\ RomanInit

TraceNext ==
  \/ /\ l <= Len(Trace)
     /\ LET e == Trace[l] IN
          \/ IsDateOp(e)  /\ DateStep(e)  /\ UNCHANGED rvars
          \/ IsRomanOp(e) /\ RomanStep(e) /\ UNCHANGED <<dvars, ctx>>
     /\ l' = l + 1
  \/ Finish /\ UNCHANGED <<dvars, rvars>>

TraceSpec == TraceInit /\ [][TraceNext]_<<tvars, dvars, rvars>>
=============================================================================
