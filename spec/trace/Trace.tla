-------------------------------- MODULE Trace --------------------------------
(* Universal trace specification: dispatches every event to its package.   *)
EXTENDS TraceDate, TraceRoman, TraceUU, TraceSem, TraceSize, TraceCross, TraceRandom, TraceHelper

allvars == <<dvars, rvars, uvars, svars, zvars, qvars>>

TraceInit == TraceBaseInit /\ DateInit /\ RomanInit /\ UUInit /\ SemInit /\ SizeInit /\ RandomInit

TraceNext ==
  \/ /\ l <= Len(Trace)
     /\ LET e == Trace[l] IN
          \/ IsDateOp(e)   /\ DateStep(e)   /\ UNCHANGED <<rvars, uvars, svars, zvars, qvars>>
          \/ IsRomanOp(e)  /\ RomanStep(e)  /\ UNCHANGED <<dvars, uvars, svars, zvars, qvars, ctx>>
          \/ IsUUOp(e)     /\ UUStep(e)     /\ UNCHANGED <<dvars, rvars, svars, zvars, qvars, ctx>>
          \/ IsSemOp(e)    /\ SemStep(e)    /\ UNCHANGED <<dvars, rvars, uvars, zvars, qvars, ctx>>
          \/ IsSizeOp(e)   /\ SizeStep(e)   /\ UNCHANGED <<dvars, rvars, uvars, svars, qvars, ctx>>
          \/ IsCrossOp(e)  /\ CrossStep(e)  /\ UNCHANGED <<allvars, ctx>>
          \/ IsRandomOp(e) /\ RandomStep(e) /\ UNCHANGED <<dvars, rvars, uvars, svars, zvars, ctx>>
          \/ IsHelperOp(e) /\ HelperStep(e) /\ UNCHANGED <<allvars, ctx>>
          \* util.reset: every package back to its initial state (configuration and receiver)
          \/ /\ e.op = "util.reset"
             /\ dMax' = 10 /\ dRecv' = ZeroDate /\ dRet' = [k |-> "unit"] /\ UNCHANGED <<dFilt, dVars>>
             /\ rMax' = 128 /\ rFmt' = 0 /\ rRecv' = 0 /\ rRet' = [k |-> "unit"]
             /\ sMax' = 1024 /\ sRecv' = ZeroVer /\ sRet' = [k |-> "unit"] /\ UNCHANGED sUniv
             /\ zSw' = [dmtu |-> FALSE, dmjs |-> FALSE, dmjo |-> FALSE] /\ zRule' = 6 /\ zMax' = 128 /\ zKeys' = 16
             /\ zRecv' = BZero /\ zRet' = [k |-> "unit"]
             /\ uMax' = 45 /\ uRecv' = ZeroID /\ uRet' = [k |-> "unit"]
             /\ UNCHANGED <<qvars, ctx>> /\ Note(<<>>)
     /\ l' = l + 1
  \/ Finish /\ UNCHANGED allvars

TraceSpec == TraceInit /\ [][TraceNext]_<<tvars, allvars>>
=============================================================================
