-------------------------------- MODULE Trace --------------------------------
(* Universal trace specification: dispatches every event to its package.   *)
EXTENDS TraceDate, TraceRoman, TraceUU, TraceSem, TraceSize, TraceCross

TraceInit == TraceBaseInit /\ DateInit /\ RomanInit /\ UUInit /\ SemInit /\ SizeInit

TraceNext ==
  \/ /\ l <= Len(Trace)
     /\ LET e == Trace[l] IN
          \/ IsDateOp(e)  /\ DateStep(e)  /\ UNCHANGED <<rvars, uvars, svars, zvars>>
          \/ IsRomanOp(e) /\ RomanStep(e) /\ UNCHANGED <<dvars, uvars, svars, zvars, ctx>>
          \/ IsUUOp(e)    /\ UUStep(e)    /\ UNCHANGED <<dvars, rvars, svars, zvars, ctx>>
          \/ IsSemOp(e)   /\ SemStep(e)   /\ UNCHANGED <<dvars, rvars, uvars, zvars, ctx>>
          \/ IsSizeOp(e)  /\ SizeStep(e)  /\ UNCHANGED <<dvars, rvars, uvars, svars, ctx>>
          \/ IsCrossOp(e) /\ CrossStep(e) /\ UNCHANGED <<dvars, rvars, uvars, svars, zvars, ctx>>
     /\ l' = l + 1
  \/ Finish /\ UNCHANGED <<dvars, rvars, uvars, svars, zvars>>

TraceSpec == TraceInit /\ [][TraceNext]_<<tvars, dvars, rvars, uvars, svars, zvars>>
=============================================================================
