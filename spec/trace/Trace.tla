-------------------------------- MODULE Trace --------------------------------
(* Universal trace specification: dispatches every event to its package.   *)
EXTENDS TraceDate, TraceRoman, TraceUU, TraceSem

TraceInit == TraceBaseInit /\ DateInit /\ RomanInit /\ UUInit /\ SemInit

TraceNext ==
  \/ /\ l <= Len(Trace)
     /\ LET e == Trace[l] IN
          \/ IsDateOp(e)  /\ DateStep(e)  /\ UNCHANGED <<rvars, uvars, svars>>
          \/ IsRomanOp(e) /\ RomanStep(e) /\ UNCHANGED <<dvars, uvars, svars, ctx>>
          \/ IsUUOp(e)    /\ UUStep(e)    /\ UNCHANGED <<dvars, rvars, svars, ctx>>
          \/ IsSemOp(e)   /\ SemStep(e)   /\ UNCHANGED <<dvars, rvars, uvars, ctx>>
     /\ l' = l + 1
  \/ Finish /\ UNCHANGED <<dvars, rvars, uvars, svars>>

TraceSpec == TraceInit /\ [][TraceNext]_<<tvars, dvars, rvars, uvars, svars>>
=============================================================================
