-------------------------------- MODULE Trace --------------------------------
(* Universal trace specification: dispatches every event to its package.   *)
EXTENDS TraceDate

TraceInit == TraceBaseInit /\ DateInit

TraceNext ==
  \/ /\ l <= Len(Trace)
     /\ LET e == Trace[l] IN
          \/ IsDateOp(e) /\ DateStep(e)
     /\ l' = l + 1
  \/ Finish /\ UNCHANGED dvars

TraceSpec == TraceInit /\ [][TraceNext]_<<tvars, dvars>>
=============================================================================
