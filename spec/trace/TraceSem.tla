----------------------------- MODULE TraceSem -----------------------------
(* Binding of the events of package sem to the actions of module Sem.      *)
EXTENDS Sem, TraceBase

VerOf(x) == [major |-> x.major, minor |-> x.minor, patch |-> x.patch, pre |-> x.pre, build |-> x.build]

SParseDemands(e, r) ==
  LET tag == Len(e.in) > 0 /\ e.in[1] = cv IN
  <<
    <<"C18.nopanic",  ~e.panic>>,
    <<"C03.accept",   IsOk(r) => e.ok>>,
    <<"C03.value",    (IsOk(r) /\ e.ok) => VerOf(e.v) = r.v>>,
    <<"C03.reject",   IsFail(r) => ~e.ok>>,
    <<"C03.zero",     (~e.ok /\ ~e.panic) => e.zero>>,
    <<"C03.typed",    (IsFail(r) /\ ~e.ok) => e.typed>>,
    <<"C03.reproduce", (IsOk(r) /\ e.ok) => (IF tag THEN e.strtag = e.in ELSE e.str = e.in)>>,
    <<"C03.format",   (IsOk(r) /\ e.ok) => (e.str = FmtSem(r.v, FALSE) /\ e.strtag = FmtSem(r.v, TRUE))>>,
    <<"C18.toolong",  (IsFail(r) /\ ~e.ok /\ ~e.panic) => SentinelsOK(r, e.is)>>,
    <<"C18.notlong",  (IsFail(r) /\ ~e.ok /\ "ErrInputTooLong" \in r.forb) => "ErrInputTooLong" \notin SeqRange(e.is)>>,  \* within the limit: never refused for its length
    <<"C18.noecho",   (IsFail(r) /\ r.req = {"ErrInputTooLong"}) => ~e.echo>>
  >>

\* Valid <=> the formatted text parses back to an equal value
SValidDemands(e) ==
  LET v == VerOf(e.v)
      txt == FmtSem(v, FALSE)
      fits == sMax = 0 \/ Len(txt) <= sMax
      rt == e.back.ok /\ VerOf(e.back.v) = v
  IN <<
    <<"X.core",        VerOf(e.core) = [v EXCEPT !.pre = <<>>, !.build = <<>>]>>,
    <<"X.iszero",      e.iszero = (v = ZeroVer)>>,
    <<"X.new",         /\ ~e.news[1].panic /\ VerOf(e.news[1].v) = [v EXCEPT !.pre = <<>>, !.build = <<>>]
                       /\ ~e.news[2].panic /\ VerOf(e.news[2].v) = [v EXCEPT !.build = <<>>]
                       /\ ~e.news[3].panic /\ VerOf(e.news[3].v) = v
                       /\ e.news[4].panic>>,
    <<"C03.fmt",       e.text = txt /\ e.texttag = FmtSem(v, TRUE)>>,
    <<"C03.stable",    e.mt = txt /\ e.mt2 = txt>>,
    <<"C03.held",      e.held = txt>>,
    <<"C03.valid",     e.valid = ValidVer(v)>>,
    <<"C03.validerr",  ~e.valid => (ValidErr(v) \in SeqRange(e.is))>>,
    <<"C03.validlink", fits => (e.valid = rt)>>
  >>

Sign(x) == x \in {-1, 0, 1}

\* C06 / C14: one row: a = universe[ai] against every b of the universe (core 1.0.0 both sides)
RowDemands(e) ==
  LET a == sUniv[e.ai]
      N == Len(sUniv) IN
  <<
    <<"H.row",        Len(e.res) = N /\ Len(e.rev) = N /\ Len(e.lat) = N>>,
    <<"C06.order",    \A j \in 1..N : ~Departure(a, sUniv[j]) => e.res[j] = PreCmp11(a, sUniv[j])>>,
    <<"C14.sign",     \A j \in 1..N : Sign(e.res[j]) /\ Sign(e.rev[j])>>,
    <<"C14.antisym",  \A j \in 1..N : e.rev[j] = 0 - e.res[j]>>,
    <<"C14.reflexive", e.res[e.ai] = 0>>,
    <<"C14.equal",    \A j \in 1..N : sUniv[j] = a => e.res[j] = 0>>,
    \* latest-of-two: 1 = returned the receiver, 2 = the argument, 3 = both are the same value
    <<"C14.latest",   \A j \in 1..N : /\ e.lat[j] \in {1, 2, 3}
                                     /\ (e.lat[j] = 2 => e.res[j] = -1)
                                     /\ (e.res[j] = -1 => e.lat[j] \in {2, 3})>>
  >>

\* helper result h = <<ok, value>>.  The helpers work on TEXTS: they must fail exactly when a text
\* is invalid for the helper's form; when both operands are valid Ver values their texts parse back
\* to the operands, so the helper must return what comparing the values returned.
HelperOK(h, textsValid, valuesValid, want) ==
  IF ~textsValid THEN h[1] = 0 ELSE h[1] = 1 /\ (valuesValid => h[2] = want)

CmpDemands2(e) ==
  LET v == VerOf(e.a)  w == VerOf(e.b)
      dep == VerDeparture(v, w)
      valid == ValidVer(v) /\ ValidVer(w)
      tv(x, tag) == IsOk(ParseSemRef(FmtSem(x, tag), IF tag THEN {FormTag} ELSE {FormVersion}, sMax))
      okV == tv(v, FALSE) /\ tv(w, FALSE)         \* CompareVersion(String(a), String(b))
      okT == tv(v, TRUE) /\ tv(w, TRUE)           \* CompareTag(StringTag(a), StringTag(b))
      okA == tv(v, TRUE) /\ tv(w, FALSE)          \* Compare(StringTag(a), String(b)); Latest(String(a), StringTag(b))
      okL == tv(v, FALSE) /\ tv(w, TRUE)
  IN <<
    <<"C06.order",     (valid /\ ~dep) => e.res = VerCmp11(v, w)>>,
    <<"C14.sign",      valid => (Sign(e.res) /\ Sign(e.rev))>>,
    <<"C14.antisym",   valid => e.rev = 0 - e.res>>,
    <<"C14.build",     valid => (e.resb = e.res /\ e.resab = e.res)>>,
    <<"C14.equal",     (valid /\ SameCore(v, w) /\ v.pre = w.pre) => e.res = 0>>,
    <<"C14.latest",    valid => (/\ e.lat \in {1, 2, 3} /\ (e.lat = 2 => e.res = -1) /\ (e.res = -1 => e.lat \in {2, 3}))>>,
    <<"C14.helper_v",  HelperOK(e.hv, okV, valid, e.res)>>,
    <<"C14.helper_t",  HelperOK(e.ht, okT, valid, e.res)>>,
    <<"C14.helper_a",  HelperOK(e.ha, okA, valid, e.res)>>,
    <<"C14.helper_form", e.hx = <<0, 0>> /\ e.hy = <<0, 0>> >>,       \* tag text to CompareVersion, version text to CompareTag
    <<"C14.latest_v",  HelperOK(e.lv, okV, valid, e.lat)>>,
    <<"C14.latest_t",  HelperOK(e.lt, okT, valid, e.lat)>>,
    <<"C14.latest_a",  HelperOK(e.la, okL, valid, e.lat)>>,
    <<"C06.helpers",   (valid /\ ~dep /\ okV /\ okT) => (e.hv[2] = VerCmp11(v, w) /\ e.ht[2] = VerCmp11(v, w) /\ e.ha[2] = VerCmp11(v, w))>>
  >>

\* Next*: x = <<panicked, result-or-empty, result.Compare(receiver)>>
NextOne(x, v, comp, want) ==
  LET max == OfAscii(comp) = U64Max IN
  /\ (x.panic = max)
  /\ ~max => /\ VerOf(x.r).pre = <<>> /\ VerOf(x.r).build = <<>>
             /\ x.above = 1
             /\ VerCmp11(VerOf(x.r), v) = 1
             /\ VerOf(x.r) = want
Inc(a) == AsciiOf(BAddSmall(OfAscii(a), 1))
Z == <<48>>
NextDemands(e) ==
  LET v == VerOf(e.v) IN
  <<
    <<"C14.nextmajor", NextOne(e.major, v, v.major, [major |-> Inc(v.major), minor |-> Z, patch |-> Z, pre |-> <<>>, build |-> <<>>])>>,
    <<"C14.nextminor", NextOne(e.minor, v, v.minor, [major |-> v.major, minor |-> Inc(v.minor), patch |-> Z, pre |-> <<>>, build |-> <<>>])>>,
    <<"C14.nextpatch", NextOne(e.patch, v, v.patch, [major |-> v.major, minor |-> v.minor, patch |-> Inc(v.patch), pre |-> <<>>, build |-> <<>>])>>
  >>

\* string helpers on raw texts: error exactly when either text is invalid for that helper;
\* otherwise the comparison of the parsed values
HTextDemands(e) ==
  LET p(t, forms) == ParseSemRef(t, forms, sMax)
      V == {FormVersion}  T == {FormTag}  A == {FormVersion, FormTag}
      both(f) == IsOk(p(e.a, f)) /\ IsOk(p(e.b, f))
      cmp(f) == VerCmp11(p(e.a, f).v, p(e.b, f).v)
      dep(f) == VerDeparture(p(e.a, f).v, p(e.b, f).v)
      okc(h, f) == IF both(f) THEN h[1] = 1 /\ h[2] \in {-1, 0, 1} ELSE h = <<0, 0>>
      okl(x, f) == IF both(f) THEN x.ok /\ VerOf(x.v) \in {p(e.a, f).v, p(e.b, f).v} ELSE ~x.ok
  IN <<
    <<"C18.nopanic",  ~e.panic>>,
    <<"C14.text_v",   okc(e.hv, V)>>,
    <<"C14.text_t",   okc(e.ht, T)>>,
    <<"C14.text_a",   okc(e.ha, A)>>,
    <<"C14.ltext_v",  okl(e.lv, V)>>,
    <<"C14.ltext_t",  okl(e.lt, T)>>,
    <<"C14.ltext_a",  okl(e.la, A)>>,
    <<"C06.text",     /\ (both(V) /\ ~dep(V)) => e.hv[2] = cmp(V)
                      /\ (both(T) /\ ~dep(T)) => e.ht[2] = cmp(T)
                      /\ (both(A) /\ ~dep(A)) => e.ha[2] = cmp(A)>>,
    <<"C06.ltext",    (both(A) /\ ~dep(A) /\ cmp(A) # 0) =>
                         VerOf(e.la.v) = (IF cmp(A) = 1 THEN p(e.a, A).v ELSE p(e.b, A).v)>>
  >>

\* C18 at the scale of megabytes.  The input of a "giant" event is sa ++ unit^n ++ sb (comparison:
\* a = unit^n ++ sa against b = unit^n ++ sb); the limit the call ran under is part of the event.
\* The comparison result follows from the cancellation law of the section-11 order (MC_C06, Order):
\* unit is a sequence of whole identifiers, so PreCmp11(a, b) = PreCmp11(sa, sb).
\* Cost: the call must not have grown its goroutine stack by 64 MiB or more, nor allocated 64 bytes
\* or more per input byte ("never a runaway allocation"); the code needs constant stack and below
\* 16 bytes per byte on every shape the drivers use.
GiantDemands(e) ==
  LET len == IF e.pkg = "sem.cmp" THEN e.n * Len(e.unit) + Len(e.sa) ELSE Len(e.sa) + e.n * Len(e.unit) + Len(e.sb)
      isCmp == e.pkg = "sem.cmp"
      over == e.max > 0 /\ len > e.max
      wholeIds == Len(e.unit) > 1 /\ e.unit[Len(e.unit)] = Dot /\ IsPre(SubSeq(e.unit, 1, Len(e.unit) - 1)) /\ IsPre(e.sa) /\ IsPre(e.sb) /\ ~Departure(e.sa, e.sb)
  IN <<
    <<"H.giant",          e.len = len /\ (isCmp => wholeIds)>>,
    <<"C18.nopanic",      ~e.panic>>,
    <<"C18.giant_limit",  (~isCmp /\ over) => (~e.ok /\ e.long)>>,
    <<"C18.noecho",       (~isCmp /\ over) => ~e.echo>>,
    <<"C18.notlong",      (~isCmp /\ ~over) => ~e.long>>,
    <<"C18.giant_cmp",    (isCmp /\ ~e.panic) => \A k \in 1..Len(e.res) : e.res[k] = PreCmp11(e.sa, e.sb)>>,
    <<"C18.giant_roman",  (e.pkg = "roman" /\ ~over /\ e.unit = <<77>> /\ e.sa = <<>> /\ e.sb = <<>>) => (e.ok /\ e.okv = e.n)>>,
    <<"C18.giant_stack",  e.stackmb < 64>>,
    <<"C18.giant_alloc",  e.allocx < 64>>
  >>

SemStep(e) ==
  CASE e.op = "sem.set" -> SemSetMax(e.max) /\ Note(<<>>)
    [] e.op = "sem.univ" -> SemSetUniverse(e.u)
                            /\ Note(<< <<"H.univ", \A i \in 1..Len(e.u) : e.u[i] = <<>> \/ IsPre(e.u[i])>> >>)
    [] e.op = "sem.parse" -> SemParse(e.in, e.fn, e.rule) /\ Note(SParseDemands(e, sRet'))
    [] e.op = "sem.utext" -> SemUnmarshalText(e.in) /\ Note(UTextDemands(e, sRet', sRecv', VerOf(e.recv)))
    [] e.op = "sem.valid" -> UNCHANGED svars /\ Note(SValidDemands(e))
    [] e.op = "sem.row" -> UNCHANGED svars /\ Note(RowDemands(e))
    [] e.op = "sem.cmp" -> SemCompare(VerOf(e.a), VerOf(e.b)) /\ Note(CmpDemands2(e))
    \* one comparison in one direction only (what a caller sorting a list does): the history that a
    \* later two-way comparison of related identifiers is judged after
    [] e.op = "sem.one" -> UNCHANGED svars /\ Note(<< <<"C14.sign", Sign(e.res)>> >>)
    [] e.op = "sem.next" -> UNCHANGED svars /\ Note(NextDemands(e))
    [] e.op = "sem.htext" -> UNCHANGED svars /\ Note(HTextDemands(e))
    [] e.op = "giant" -> UNCHANGED svars /\ Note(GiantDemands(e))

IsSemOp(e) == e.op \in {"sem.one", "sem.utext", "sem.set", "sem.univ", "sem.parse", "sem.valid", "sem.row", "sem.cmp", "sem.next", "sem.htext", "giant"}
=============================================================================
