----------------------------- MODULE TraceCross -----------------------------
(***************************************************************************)
(* Cross-package conventions, stated once and bound to events of every     *)
(* package:                                                                *)
(*  C16  formatter append contract (fmt.append events)                     *)
(*  C17  receiver / input frame conditions (recv.call, twin events)        *)
(*  C18  totality of comparators on arbitrary bytes (sem.cmpraw)           *)
(* The package-specific expectations of parsers are in the package trace   *)
(* modules; here only what holds for every type.                           *)
(***************************************************************************)
EXTENDS TraceBase

\* C16: out = the bytes returned when formatting onto the caller's buffer; nilout = the same
\* call on an empty (nil) buffer; preafter = the caller's original bytes read back afterwards
AppendDemands(e) ==
  <<
    <<"C16.append",    e.out = e.prefix \o e.nilout>>,
    <<"C16.untouched", e.preafter = e.prefix>>,
    <<"C16.chain",     e.chain = e.nilout \o e.nilout \o e.nilout>>,     \* each result used as the next call's buffer
    <<"C16.reuse",     e.reuseout = e.reusepre \o e.nilout>>,             \* the returned buffer truncated, refilled, used again
    <<"C16.noerr",     e.ok>>,
    <<"C16.nopanic",   ~e.panic>>
  >>

\* C17: one Unmarshal* / Scan call on a receiver holding e.pre
RecvDemands(e) ==
  <<
    <<"C18.nopanic",   ~e.panic>>,
    <<"C17.recv",      ~e.ok => e.after = e.pre>>,
    <<"C17.inmod",     ~e.inmod>>,
    <<"C17.scribble",  e.after2 = e.after>>
  >>

\* C17: the same content through string, []byte, named string and named []byte instantiations
TwinDemands(e) ==
  <<
    <<"C18.nopanic",   ~e.panic>>,
    <<"C17.twin_ok",   \A i \in 2..Len(e.oks) : e.oks[i] = e.oks[1]>>,
    <<"C17.twin_value", \A i \in 2..Len(e.vals) : e.vals[i] = e.vals[1]>>,
    <<"C17.twin_msg",  e.eqmsg>>,
    <<"C17.inmod",     ~e.inmod>>,
    <<"C17.scribble",  e.scribbleok>>
  >>

CmpRawDemands(e) ==
  <<
    <<"C18.nopanic",   ~e.panic>>,
    <<"C18.cmp_sign",  ~e.panic => \A i \in 1..Len(e.res) : e.res[i] \in {-1, 0, 1}>>
  >>

CrossStep(e) ==
  CASE e.op = "fmt.append" -> Note(AppendDemands(e))
    [] e.op = "recv.call"  -> Note(RecvDemands(e))
    [] e.op = "twin"       -> Note(TwinDemands(e))
    [] e.op = "twin2"      -> Note(TwinDemands(e))         \* oks/vals = <<string, bytes from the refilled buffer>>
    [] e.op = "sem.cmpraw" -> Note(CmpRawDemands(e))

IsCrossOp(e) == e.op \in {"fmt.append", "recv.call", "twin", "twin2", "sem.cmpraw"}
=============================================================================
