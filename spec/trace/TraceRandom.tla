---------------------------- MODULE TraceRandom ----------------------------
(***************************************************************************)
(* Trace validation of concurrent uu.RandomID runs (C19).                  *)
(*                                                                         *)
(* Events, ordered by an atomic sequence number taken inside the hooks:    *)
(*   r.reset  a run starts (goroutines, GOMAXPROCS)                        *)
(*   r.enter  the generator lock was acquired      (inside the section)    *)
(*   r.exit   the generator lock is being released (inside the section)    *)
(*   r.drawn  RandomID received draws a, b (16 nibbles each)               *)
(*   r.ret    a goroutine got id back from RandomID (32 nibbles)           *)
(*   r.end    the run ended                                                *)
(* The run is accepted iff it is a behaviour of the lock protocol of       *)
(* UURandom (enter and exit alternate: mutual exclusion), every returned   *)
(* id is Compose of a pending pair of draws, has version 4 and variant 1,  *)
(* all ids of the run are distinct and every one of the 122 free bits was  *)
(* seen with both values.                                                  *)
(***************************************************************************)
EXTENDS UURef, TraceBase

VARIABLES qHeld,      \* the lock is held (by the protocol of UURandom: lock # 0)
          qPending,   \* draws received by RandomID and not yet returned as an id
          qStart,     \* index of the r.reset event of the current run
          qCount      \* [exits, drawn] so far in the run
qvars == <<qHeld, qPending, qStart, qCount>>

RandomInit == qHeld = FALSE /\ qPending = <<>> /\ qStart = 0 /\ qCount = [exits |-> 0, drawn |-> 0]

Bits16(n) == [i \in 1..64 |-> (n[((i - 1) \div 4) + 1] \div (2 ^ (3 - ((i - 1) % 4)))) % 2]
Nib(bits) == [j \in 1..16 |-> 8 * bits[4 * j - 3] + 4 * bits[4 * j - 2] + 2 * bits[4 * j - 1] + bits[4 * j]]

\* position i = 1..64 is bit 64 - i
ComposeID(a, b) ==
  LET A == Bits16(a)  B == Bits16(b)
      H == [i \in 1..64 |-> LET p == 64 - i IN
              IF p >= 16 THEN A[i + 1] ELSE IF p >= 12 THEN (IF p = 14 THEN 1 ELSE 0) ELSE A[i]]
      L == [i \in 1..64 |-> IF i = 1 THEN 1 ELSE B[i - 1]]
  IN Nib(H) \o Nib(L)

Is63(n) == Len(n) = 16 /\ n[1] < 8 /\ \A i \in 1..16 : n[i] \in 0..15

MatchIdx(id) == {i \in 1..Len(qPending) : ComposeID(qPending[i][1], qPending[i][2]) = id}
Remove(q, i) == SubSeq(q, 1, i - 1) \o SubSeq(q, i + 1, Len(q))

\* the ids of the current run, from the trace constant
RetIdx == {i \in (qStart + 1)..(l - 1) : Trace[i].op = "r.ret"}
FreeBit(p, k) == ~(p = 13) /\ ~(p = 17 /\ k >= 2)
EndDemands(e) ==
  LET ids == {Trace[i].id : i \in RetIdx}
      vals(p) == {Trace[i].id[p] : i \in RetIdx} IN
  <<
    <<"H.count",       Cardinality(RetIdx) = e.n>>,
    <<"C19.complete",  e.n = e.want>>,                               \* every requested id was returned
    <<"C19.distinct",  Cardinality(ids) = Cardinality(RetIdx)>>,
    <<"C19.bits",      e.n >= 256 => \A p \in 1..32, k \in 0..3 :
                          FreeBit(p, k) => {(v \div (2 ^ k)) % 2 : v \in vals(p)} = {0, 1}>>,
    <<"C19.returned",  qPending = <<>> >>,
    <<"C19.released",  ~qHeld>>
  >>

\* r.bulk: 2^log2n ids from e.goroutines goroutines, summarised by the harness (1 id in 256 kept for
\* the duplicate count; OR and AND of all ids)
BulkDemands(e) ==
  <<
    <<"C19.nopanic",   ~e.panic>>,
    <<"C19.complete",  e.done = 2 ^ e.log2n \/ e.done = (2 ^ e.log2n \div e.goroutines) * e.goroutines>>,
    <<"C19.version",   e.bad = 0>>,
    <<"C19.distinct",  e.dups = 0>>,
    <<"C19.bits",      \A p \in 1..32, k \in 0..3 : FreeBit(p, k) =>
                          ((e.or[p] \div (2 ^ k)) % 2 = 1 /\ (e.and[p] \div (2 ^ k)) % 2 = 0)>>,
    <<"C19.variant",   e.or[13] = 4 /\ e.and[13] = 4 /\ e.or[17] \div 4 = 2 /\ e.and[17] \div 4 = 2>>
  >>

RandomStep(e) ==
  CASE e.op = "r.reset" ->
         /\ qHeld' = FALSE /\ qPending' = <<>> /\ qStart' = l /\ qCount' = [exits |-> 0, drawn |-> 0] /\ Note(<<>>)
    [] e.op = "r.enter" ->
         /\ qHeld' = TRUE /\ UNCHANGED <<qPending, qStart, qCount>>
         /\ Note(<< <<"C19.mutex", ~qHeld>> >>)
    [] e.op = "r.exit" ->
         /\ qHeld' = FALSE /\ UNCHANGED <<qPending, qStart>> /\ qCount' = [qCount EXCEPT !.exits = @ + 1]
         /\ Note(<< <<"C19.protocol", qHeld>> >>)
    [] e.op = "r.drawn" ->
         /\ qPending' = Append(qPending, <<e.a, e.b>>) /\ UNCHANGED <<qHeld, qStart>>
         /\ qCount' = [qCount EXCEPT !.drawn = @ + 1]
         \* every call draws inside its own critical section: a call that received draws has
         \* completed an enter/exit of its own before
         /\ Note(<< <<"C19.draw63", Is63(e.a) /\ Is63(e.b)>>,
                    <<"C19.drawn_under_lock", qCount.drawn + 1 <= qCount.exits>> >>)
    [] e.op = "r.ret" ->
         LET m == MatchIdx(e.id) IN
         \* when no pending pair explains the id, the oldest pair is dropped (re-synchronisation:
         \* the call that produced this id has returned, so one pair is no longer pending)
         /\ qPending' = IF m = {} THEN (IF qPending = <<>> THEN qPending ELSE Tail(qPending))
                         ELSE Remove(qPending, CHOOSE i \in m : TRUE)
         /\ UNCHANGED <<qHeld, qStart, qCount>>
         /\ Note(<< <<"C19.compose", m # {}>>,
                    <<"C19.version", IsID(e.id) /\ Version(e.id) = 4>>,
                    <<"C19.variant", IsID(e.id) /\ Variant(e.id) = 1>> >>)
    [] e.op = "r.panic" ->
         /\ UNCHANGED qvars /\ Note(<< <<"C19.nopanic", FALSE>> >>)     \* RandomID panicked in a goroutine
    [] e.op = "r.bulk" ->
         /\ UNCHANGED qvars /\ Note(BulkDemands(e))
    [] e.op = "r.end" ->
         /\ UNCHANGED qvars /\ Note(EndDemands(e))

IsRandomOp(e) == e.op \in {"r.bulk", "r.reset", "r.enter", "r.exit", "r.drawn", "r.ret", "r.end", "r.panic"}
=============================================================================
