----------------------------- MODULE TraceSize -----------------------------
(* Binding of the events of package size (and constraint) to module Size.  *)
EXTENDS Size, TraceBase, JsonGrammar

BackIs(b, n) == b.ok /\ b.v = n

MarshalDemands(e) ==
  LET n == e.n
      mtb == StrToSeq(e.mt)   mjb == StrToSeq(e.mj) IN
  <<
    <<"H.n",            BIsCanon(n) /\ FitsU64(n)>>,
    <<"C04.stable",     e.mt2 = e.mt /\ e.mj2 = e.mj>>,
    <<"C04.held",       e.held = e.mt /\ e.heldj = e.mj>>,
    <<"C13.held",       e.heldp = FmtSize(n, FormatPretty) /\ e.helds = FmtSize(n, 0) /\ e.heldps = FmtSize(n, FormatPretty)
                        /\ e.heldh = FmtSize(n, FormatPretty + FormatHTML)>>,            \* marshalling again after the caller overwrote the results
    <<"C04.text_back",  BackIs(e.ut, n)>>,
    <<"C04.json_back",  BackIs(e.uj, n)>>,
    <<"C04.struct",     BackIs(e.cs, n)>>,
    <<"C04.slice",      BackIs(e.csl, n)>>,
    <<"C04.map",        BackIs(e.cm, n)>>,
    <<"C04.string_back", BackIs(e.ps, n)>>,
    \* one read buffer: the size in bytes, then refilled with its neighbour (last digit's parity flipped)
    <<"C04.pretty_twice", BackIs(e.pp1, n) /\ BackIs(e.pp2, n) /\ e.ppkept>>,
    <<"C04.reuse",      BackIs(e.reuse1, n) /\ BackIs(e.reuse2, [n EXCEPT ![Len(n)] = IF @ % 2 = 0 THEN @ + 1 ELSE @ - 1])>>,
    <<"C04.pretty_back", BackIs(e.pp, n)>>,
    <<"C04.text_meaning", ParseSizeTextRef(mtb, 0) = Ok(n)>>,
    <<"C04.json_meaning", LET m == MjMeaning(mjb) IN IsAny(m) \/ m = Ok(n)>>,
    <<"C04.string_meaning", ParseSizeTextRef(StrToSeq(e.str), 0) = Ok(n) /\ ParseSizeTextRef(StrToSeq(e.pretty), 0) = Ok(n)>>,
    <<"C13.shorten",    e.sv = Shorten(n).value /\ e.su = Shorten(n).unit>>,
    <<"C13.exact",      MulUnit(e.sv, StrToSeq(e.su)) = n>>,
    <<"C13.default",    e.str = FmtSize(n, 0)>>,
    <<"C13.pretty",     e.pretty = FmtSize(n, FormatPretty)>>,
    <<"C13.html",       e.html = FmtSize(n, FormatPretty + FormatHTML)>>,
    <<"C13.htmlonly",   e.f2 = FmtSize(n, FormatHTML)>>,
    <<"X.marshaltext",  e.mt = MarshalTextRef(n, zSw)>>,
    <<"X.marshaljson",  e.mj = MarshalJSONRef(n, zSw)>>,
    <<"X.bytesstring",  e.bs = DigStr(n)>>,
    <<"X.bytesjson",    e.bjn = DigStr(n)>>
  >>

ZParseDemands(e, r) ==
  <<
    <<"C18.nopanic",  ~e.panic>>,
    <<"P.accept",     IsOk(r) => e.ok>>,
    <<"P.value",      (IsOk(r) /\ e.ok) => e.v = r.v>>,
    <<"P.reject",     IsFail(r) => ~e.ok>>,
    <<"X.zero",       (~e.ok /\ ~e.panic) => e.v = BZero>>,            \* the properties do not fix the value returned with an error
    <<"P.sentinel",   (IsFail(r) /\ ~e.ok /\ ~e.panic /\ r.req # {"ErrInputTooLong"}) => SentinelsOK(r, e.is)>>,
    <<"C18.toolong",  (IsFail(r) /\ ~e.ok /\ ~e.panic /\ r.req = {"ErrInputTooLong"}) => SentinelsOK(r, e.is)>>,
    <<"C18.notlong",  (IsFail(r) /\ ~e.ok /\ "ErrInputTooLong" \in r.forb) => "ErrInputTooLong" \notin SeqRange(e.is)>>,  \* within the limit: never refused for its length
    <<"C18.noecho",   (IsFail(r) /\ r.req = {"ErrInputTooLong"}) => ~e.echo>>
  >>
\* Impl layer against the code (model drift, a note, never a verdict): for a well-formed object
\* the library's key loop as modelled by SizeJSON!ReaderLoop stops with the same sentinel
ImplDemands(e) ==
  IF IsJSONRule(e.rule) /\ e.wf /\ e.doc.k = "obj" /\ Bit(e.rule, RuleEnableJSONObjectForm)
       /\ ~(zMax # 0 /\ Len(e.in) > zMax)
  THEN LET x == ReaderLoop(e.doc.members, e.rule, zKeys) IN
       << <<"X.readerloop_err",  (x.k = "err" /\ x.e # "plain") => (~e.ok /\ x.e \in SeqRange(e.is))>>,
          <<"X.readerloop_pair", x.k = "pair" => (e.ok <=> IsOk(NewSizeRef("int", x.value, x.unit)))>> >>
  ELSE <<>>

\* the harness derives "exactly one well-formed JSON value" with encoding/json; the byte-level
\* grammar of JsonGrammar.tla must agree (a disagreement is a harness/specification error, exit 2)
WfDemands(e) == << <<"H.wf", e.wf = JsonValid(e.in)>> >>

\* the same demands belong to C08 for text-mode events and to C12 for JSON-mode events
Prefixed(ds, p) == [i \in 1..Len(ds) |-> IF SubSeq(ds[i][1], 1, 2) = "P." THEN <<p \o SubSeq(ds[i][1], 3, Len(ds[i][1])), ds[i][2]>> ELSE ds[i]]

NewDemands(e) ==
  LET r == NewSizeRef(e.cls, e.digits, e.unit) IN
  <<
    <<"C08.new_ok",    IsOk(r) => (e.ok /\ e.v = r.v)>>,
    <<"C08.new_fail",  IsFail(r) => ~e.ok>>,
    <<"X.new_zero",    ~e.ok => e.v = BZero>>,
    <<"C18.nopanic",   ~e.panic>>
  >>

BytesDemands(e) ==
  LET rep == Representable(e.n, e.kind) IN
  <<
    <<"C08.bytes_ok",    e.ok = rep>>,
    <<"C08.bytes_value", e.ok => e.v = e.n>>,
    <<"X.bytes_zero",    ~e.ok => e.v = BZero>>
  >>

KindDemands(e) ==
  <<
    <<"C08.kind_max",    ~IsFloatKind(e.kind) => e.max = KindMax(e.kind)>>,
    <<"C08.kind_min",    ~IsFloatKind(e.kind) => e.minabs = (IF IsSignedKind(e.kind) THEN BAddSmall(KindMax(e.kind), 1) ELSE BZero)>>,
    <<"C08.kind_bits",   e.bits = KindBits(e.kind)>>,
    <<"C08.kind_float",  e.isfloat = IsFloatKind(e.kind)>>,
    <<"C08.kind_signed", e.issigned = IsSignedKind(e.kind)>>,
    <<"X.kind_snz",      e.snz = SmallestPattern(e.kind)>>,
    <<"X.kind_fmax",     IF IsFloatKind(e.kind) THEN e.fmax = FloatMaxPattern(e.kind, 0) ELSE e.fmax = <<>>>>,
    <<"X.kind_fmin",     IF IsFloatKind(e.kind) THEN e.fmin = FloatMaxPattern(e.kind, 1) ELSE e.fmin = <<>>>>
  >>

NoDoc == [k |-> "other"]
SizeStep(e) ==
  CASE e.op = "size.set" ->
         SizeSet([dmtu |-> e.dmtu, dmjs |-> e.dmjs, dmjo |-> e.dmjo], e.rule, e.max, e.keys) /\ Note(<<>>)
    [] e.op = "size.marshal" -> UNCHANGED zvars /\ Note(MarshalDemands(e))
    [] e.op = "size.parse" ->
         LET json == IsJSONRule(e.rule) IN
         /\ SizeParse(e.in, e.rule, IF json THEN e.doc ELSE NoDoc, IF json THEN e.wf ELSE FALSE)
         \* JSON documents are C12's; the object form is also "a number and a unit", the number form a number of bytes (C08: exact or refused)
         /\ Note(Prefixed(ZParseDemands(e, zRet'), IF json THEN "C12." ELSE "C08.")
                 \o (IF json THEN ImplDemands(e) \o WfDemands(e) ELSE <<>>)
                 \o (IF json /\ e.wf /\ e.doc.k \in {"obj", "num"} THEN Prefixed(ZParseDemands(e, zRet'), "C08.") ELSE <<>>))
    [] e.op = "size.utext" -> SizeUnmarshalText(e.in) /\ Note(UTextDemands(e, zRet', zRecv', e.recv))
    [] e.op = "size.new"   -> UNCHANGED zvars /\ Note(NewDemands(e))
    [] e.op = "size.bytes" -> UNCHANGED zvars /\ Note(BytesDemands(e))
    [] e.op = "constraint.kind" -> UNCHANGED zvars /\ Note(KindDemands(e))

IsSizeOp(e) == e.op \in {"size.utext", "size.set", "size.marshal", "size.parse", "size.new", "size.bytes", "constraint.kind"}
=============================================================================
