----------------------------- MODULE TraceBase -----------------------------
(***************************************************************************)
(* Common part of trace validation (code -> spec).                         *)
(*                                                                         *)
(* A trace is an ndjson file of events recorded from the real code, one    *)
(* per completed public call (operation, all arguments, full projected     *)
(* observation).  The trace specification consumes one event per step,     *)
(* drives the package module's action with the logged arguments and        *)
(* evaluates a list of named DEMANDS (code, condition) against the logged  *)
(* observation.  A failed demand does not dead-end the behaviour: its      *)
(* event index and code are appended to bads and the model state is         *)
(* re-synchronised from the logged post-state where needed, so the rest of *)
(* the trace is still checked and all mismatches of a run are reported.    *)
(* The last step writes the result with JsonSerialize; acceptance requires *)
(* that every event was consumed (n = Len(Trace)).                         *)
(*                                                                         *)
(* Demand codes start with the property id they belong to ("C09.value"),   *)
(* so that a check reports only what its own property states.              *)
(***************************************************************************)
EXTENDS Integers, Sequences, FiniteSets, TLC, Json, IOUtils

VARIABLES l,      \* index of the next event
          bads,   \* <<index, code>> of failed demands (capped)
          nbad,   \* total number of failed demands
          ctx     \* coverage context (previous point of an enumeration chain)

tvars == <<l, bads, nbad, ctx>>

Trace == ndJsonDeserialize(IOEnv.TRACE_FILE)

MaxBads == 1000

TraceBaseInit == l = 1 /\ bads = <<>> /\ nbad = 0 /\ ctx = [k |-> "none"]

\* demands: a sequence of <<code, condition>>
FailedOf(ds) == SelectSeq(ds, LAMBDA p : ~p[2])

\* at most PerCode entries are kept per demand code (and MaxBads in total), so that a demand
\* failing thousands of times cannot hide a different failing demand
PerCode == 25
Listed(code) == Cardinality({i \in 1..Len(bads) : bads[i][2] = code})
Note(ds) == LET f == FailedOf(ds)
                keep == SelectSeq(f, LAMBDA p : Listed(p[1]) < PerCode) IN
            /\ nbad' = nbad + Len(f)
            /\ bads' = IF Len(bads) >= MaxBads THEN bads
                       ELSE bads \o [i \in 1..Len(keep) |-> <<l, keep[i][1]>>]

Has(e, f) == f \in DOMAIN e

\* UnmarshalText on the package's persistent receiver: r = the specification's expectation,
\* want = the model receiver after the action, got = the real receiver after the call
UTextDemands(e, r, want, got) ==
  <<
    <<"C18.nopanic",     ~e.panic>>,
    <<"C17.state_ok",    (r.k = "ok") => e.ok>>,
    <<"C17.state_fail",  (r.k = "fail") => ~e.ok>>,
    <<"C17.state_recv",  (r.k \in {"ok", "fail"}) => got = want>>
  >>

\* arrays arrive as sequences; records of the empty JSON array [] arrive as <<>>
Finish == /\ l = Len(Trace) + 1
          /\ JsonSerialize(IOEnv.RESULT_FILE, [n |-> l - 1, nbad |-> nbad, bads |-> bads])
          /\ l' = l + 1
          /\ UNCHANGED <<bads, nbad, ctx>>

=============================================================================
