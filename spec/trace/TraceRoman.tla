----------------------------- MODULE TraceRoman -----------------------------
(* Binding of the events of package roman to the actions of module Roman.  *)
EXTENDS Roman, TraceBase

\* C02: one number under all 128 flag sets: outs[f+1], backs[f+1] (value or -1), valids[f+1]
FmtAllDemands(e) ==
  LET n == e.n
      ms == Rep("M", n \div 1000)   msl == Rep("m", n \div 1000)
      want(f) == (IF Bit(f, FLower) THEN msl ELSE ms) \o TailStr(n, f)
      fits(f) == rMax = 0 \/ Len(want(f)) <= rMax
  IN <<
    <<"C02.canonical", \A f \in 0..127 : e.outs[f + 1] = want(f)>>,
    <<"C02.zero",      n = 0 => \A f \in 0..127 : e.outs[f + 1] = "">>,
    <<"C02.back",      \A f \in 0..127 : fits(f) => e.backs[f + 1] = n>>,
    <<"C02.valid",     \A f \in 0..127 : fits(f) => e.valids[f + 1] = 1>>,
    <<"C18.limit",     \A f \in 0..127 : ~fits(f) => (e.backs[f + 1] = -1 /\ e.valids[f + 1] = 0)>>
  >>

\* C02: MarshalText / String / verbs under the current DefaultFormat
PathsDemands(e) ==
  LET n == e.n
      d == FmtRoman(n, rFmt) IN
  <<
    <<"H.sib",      e.sibtext = FmtRoman(e.sibn, 0)>>,
    \* one read buffer: the standard numeral of n, then refilled with a neighbour's numeral and parsed again
    <<"C02.reuse",  ((rMax = 0 \/ Len(FmtRoman(n, 0)) <= rMax) => e.reuse[1] = n)
                    /\ ((rMax = 0 \/ Len(e.sibtext) <= rMax) => e.reuse[2] = e.sibn)>>,
    <<"C02.mtext",  e.mt = d>>,
    <<"C02.stable", e.mt2 = d>>,
    <<"C02.held",   e.held = d /\ e.helds = d>>,
    <<"C02.string", e.str = d>>,
    <<"C02.verb_s", e.vs = d>>,
    <<"C02.verb_R", e.vR = FmtRoman(n, 0)>>,
    <<"C02.verb_r", e.vr = FmtRoman(n, FLower)>>,
    <<"C02.verb_L", e.vL = FmtRoman(n, 63)>>,
    <<"C02.verb_l", e.vl = FmtRoman(n, 127)>>,
    <<"C02.unmarshal", (rMax = 0 \/ Len(d) <= rMax) => e.back = n>>
  >>

RParseDemands(e, r) ==
  <<
    <<"C18.nopanic",  ~e.panic>>,
    <<"C10.accept",   IsOk(r) => e.ok>>,
    <<"C10.value",    (IsOk(r) /\ e.ok) => e.v = r.v>>,
    <<"C10.reject",   IsFail(r) => ~e.ok>>,
    <<"C10.zero",     (~e.ok /\ ~e.panic) => e.v = 0>>,
    <<"C10.typed",    (IsFail(r) /\ ~e.ok) => e.typed>>,
    <<"C10.valid",    e.vok = IsOk(r)>>,                 \* a Valid that panics has not accepted the numeral
    <<"C10.validtyped", (~IsOk(r) /\ ~e.vok) => e.vtyped>>,
    <<"C18.toolong",  (IsFail(r) /\ ~e.ok /\ ~e.panic) => (SentinelsOK(r, e.is) /\ SentinelsOK(r, e.vis))>>,
    <<"C18.notlong",  (IsFail(r) /\ ~e.ok /\ "ErrInputTooLong" \in r.forb) => "ErrInputTooLong" \notin SeqRange(e.is)>>,  \* within the limit: never refused for its length
    <<"C18.noecho",   (IsFail(r) /\ r.req = {"ErrInputTooLong"}) => ~e.echo>>
  >>

RomanStep(e) ==
  CASE e.op = "roman.set" -> RomanSet(e.max, e.fmt) /\ Note(<<>>)
    [] e.op = "roman.fmtall" -> UNCHANGED rvars /\ Note(FmtAllDemands(e))
    [] e.op = "roman.paths" -> RomanMarshalText(e.n) /\ Note(PathsDemands(e))
    [] e.op = "roman.utext" -> RomanUnmarshalText(e.in) /\ Note(UTextDemands(e, rRet', rRecv', e.recv))
    [] e.op = "roman.parse" -> RomanParse(e.in, e.rule) /\ Note(RParseDemands(e, rRet'))

IsRomanOp(e) == e.op \in {"roman.utext", "roman.set", "roman.fmtall", "roman.paths", "roman.parse"}
=============================================================================
