----------------------------- MODULE TraceDate -----------------------------
(* Binding of the events of package date to the actions of module Date.    *)
EXTENDS Date, TraceBase

Dt(a) == D(a[1], a[2], a[3])

\* C01: one date through every output path and every input path
RtDemands(e) ==
  LET x == D(e.y, e.m, e.d)
      ext == FmtDate(x, FALSE)
      bas == FmtDate(x, TRUE)
      fitsE == dMax = 0 \/ Len(ext) <= dMax
      fitsB == dMax = 0 \/ Len(bas) <= dMax
      good == <<1, e.y, e.m, e.d>>
  IN <<
    <<"H.new",      e.new = <<e.y, e.m, e.d>> >>,           \* harness sanity: a calendar date
    <<"H.chain",    e.chain = 1 => (ctx.k = "date" /\ x = NextDay(ctx.v)) >>,
    <<"C01.noerr",  e.errs = 0>>,
    <<"C01.fmt_e",  e.fe = ext>>,
    <<"C01.fmt_b",  e.fb = bas>>,
    <<"C01.mtext",  e.mt = ext>>,
    <<"C01.string", e.str = ext>>,
    <<"C01.verb_s", e.vs = ext>>,
    <<"C01.verb_e", e.ve = ext>>,
    <<"C01.verb_v", e.vv = ext>>,
    <<"C01.verb_b", e.vb = bas>>,
    <<"C01.json",   e.js = JsonOf(x)>>,
    <<"C01.xml",    e.xm = XmlOf(x)>>,
    <<"C01.back_e", fitsE => \A i \in 1..5  : e.back[i] = good>>,
    <<"C01.back_b", fitsB => \A i \in 6..10 : e.back[i] = good>>,
    <<"C18.limit_e", ~fitsE => \A i \in 1..5  : e.back[i][1] = 0>>,
    <<"C18.limit_b", ~fitsB => \A i \in 6..10 : e.back[i][1] = 0>>
  >>

ParseDemands(e, r) ==
  <<
    <<"C18.nopanic",  ~e.panic>>,
    <<"C09.accept",   IsOk(r) => e.ok>>,
    <<"C09.value",    (IsOk(r) /\ e.ok) => Dt(e.v) = r.v>>,
    <<"C09.reject",   IsFail(r) => ~e.ok>>,
    <<"C09.zero",     (IsFail(r) /\ ~e.ok /\ ~e.panic) => e.zero>>,
    <<"C09.typed",    (IsFail(r) /\ ~e.ok /\ ~e.panic) => e.typed>>,
    <<"C09.sentinel", (IsFail(r) /\ ~e.ok /\ ~e.panic /\ r.req # {"ErrInputTooLong"}) => SentinelsOK(r, e.is)>>,
    <<"C18.toolong",  (IsFail(r) /\ ~e.ok /\ ~e.panic /\ r.req = {"ErrInputTooLong"}) => SentinelsOK(r, e.is)>>,
    <<"C18.noecho",   (IsFail(r) /\ r.req = {"ErrInputTooLong"}) => ~e.echo>>
  >>

DateStep(e) ==
  CASE e.op = "date.set" ->
         DateSetMax(e.max) /\ Note(<<>>) /\ UNCHANGED ctx
    [] e.op = "date.rt" ->
         /\ UNCHANGED dvars
         /\ Note(RtDemands(e))
         /\ ctx' = [k |-> "date", v |-> D(e.y, e.m, e.d)]
    [] e.op = "date.parse" ->
         /\ DateParse(e.in, e.rule)
         /\ Note(ParseDemands(e, dRet'))
         /\ UNCHANGED ctx

IsDateOp(e) == e.op \in {"date.set", "date.rt", "date.parse"}

=============================================================================
