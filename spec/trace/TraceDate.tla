----------------------------- MODULE TraceDate -----------------------------
(* Binding of the events of package date to the actions of module Date.    *)
EXTENDS Date, TraceBase

Dt(a) == D(a[1], a[2], a[3])
MonthNames == <<"January", "February", "March", "April", "May", "June", "July", "August", "September",
                "October", "November", "December">>

\* C01: one date through every output path and every input path
RtDemands(e) ==
  LET x == D(e.y, e.m, e.d)
      ext == FmtDate(x, FALSE)
      bas == FmtDate(x, TRUE)
      fitsE == dMax = 0 \/ Len(ext) <= dMax
      fitsB == dMax = 0 \/ Len(bas) <= dMax
      good == <<1, e.y, e.m, e.d>>
      nx == NextDay(x)
      nt == FmtDate(nx, FALSE)
      fitsN == (dMax = 0 \/ Len(nt) <= dMax) /\ nx.y <= 999999999      \* the text grammar has at most 9 year digits
  IN <<
    <<"H.next",     e.nexttext = nt>>,
    \* one read buffer: this record, then refilled with the following day and parsed again
    <<"C01.reuse",  (fitsE => (e.reuse[1] = good /\ e.reuse[3] = good /\ e.inkept)) /\ (fitsN => e.reuse[2] = <<1, nx.y, nx.m, nx.d>>)>>,
    <<"C01.fmt_both", e.both = ext \o bas>>,
    <<"H.valid",    ValidYMD(e.y, e.m, e.d)>>,               \* harness sanity: the driver asked for a calendar date
    <<"C01.new",    e.new = <<e.y, e.m, e.d>> >>,           \* date.New of a calendar date is that date (in every process time zone)
    <<"H.chain",    e.chain = 1 => (ctx.k = "date" /\ x = NextDay(ctx.v)) >>,
    <<"X.accessors", e.acc = <<e.y, e.m, e.d>> >>,                 \* Year(), Month(), Day()
    <<"X.monthname", e.mname = MonthNames[e.m]>>,
    <<"C01.noerr",  e.errs = 0>>,
    <<"C01.fmt_e",  e.fe = ext>>,
    <<"C01.fmt_b",  e.fb = bas>>,
    <<"C01.mtext",  e.mt = ext>>,
    <<"C01.string", e.str = ext>>,
    <<"C01.verb_s", e.vs = ext>>,
    <<"C01.verb_e", e.ve = ext>>,
    <<"C01.verb_v", e.vv = ext>>,
    <<"C01.verb_b", e.vb = bas>>,
    <<"C01.json",   e.js = JsonOf(x)>>,
    <<"C01.xml",    e.xm = XmlOf(x)>>,
    <<"C01.stable", e.mt2 = ext /\ e.fe2 = ext /\ e.str2 = ext>>,
    <<"C01.held",   e.held = ext /\ e.heldf = ext /\ e.helds = ext>>,          \* a result kept by the caller survives later calls   \* after the caller overwrote the earlier results
    <<"C01.back_e", fitsE => \A i \in {1, 2, 3, 4, 5, 11, 12} : e.back[i] = good>>,
    <<"C01.back_b", fitsB => \A i \in 6..10 : e.back[i] = good>>,
    <<"C18.limit_e", ~fitsE => \A i \in 1..5  : e.back[i][1] = 0>>,
    <<"C18.limit_b", ~fitsB => \A i \in 6..10 : e.back[i][1] = 0>>
  >>

ParseDemands(e, r) ==
  <<
    <<"C18.nopanic",  ~e.panic>>,
    <<"C09.accept",   IsOk(r) => e.ok>>,
    <<"C09.value",    (IsOk(r) /\ e.ok) => Dt(e.v) = r.v>>,
    <<"C09.reject",   IsFail(r) => ~e.ok>>,
    <<"C09.zero",     (IsFail(r) /\ ~e.ok /\ ~e.panic) => e.zero>>,
    <<"C09.typed",    (IsFail(r) /\ ~e.ok) => e.typed>>,
    <<"C09.sentinel", (IsFail(r) /\ ~e.ok /\ ~e.panic /\ r.req # {"ErrInputTooLong"}) => SentinelsOK(r, e.is)>>,
    <<"C18.toolong",  (IsFail(r) /\ ~e.ok /\ ~e.panic /\ r.req = {"ErrInputTooLong"}) => SentinelsOK(r, e.is)>>,
    <<"C18.notlong",  (IsFail(r) /\ ~e.ok /\ "ErrInputTooLong" \in r.forb) => "ErrInputTooLong" \notin SeqRange(e.is)>>,  \* within the limit: never refused for its length
    <<"C18.noecho",   (IsFail(r) /\ r.req = {"ErrInputTooLong"}) => ~e.echo>>
  >>


OptD(a) == IF Len(a) = 0 THEN NoDate ELSE Dt(a)

\* C11 / C17: UnmarshalBinary into a receiver holding e.pre
UnbinDemands(e, r) ==
  LET after == Dt(e.after)  pre == Dt(e.pre) IN
  <<
    <<"C18.nopanic",   ~e.panic>>,
    <<"C11.accept",    IsOk(r) => e.ok>>,
    <<"C11.value",     (IsOk(r) /\ e.ok) => after = r.v>>,
    <<"C11.reject",    IsFail(r) => ~e.ok>>,
    <<"C11.sentinel",  (IsFail(r) /\ ~e.ok /\ ~e.panic) => SentinelsOK(r, e.is)>>,
    <<"C11.calendar",  ValidDate(pre) => ValidDate(after)>>,
    <<"C11.range",     (r.k = "failorvalid" /\ e.ok) => ValidDate(after)>>,
    <<"C17.recv",      ~e.ok => after = pre>>,
    <<"C17.inmod",     ~e.inmod>>
  >>

BinDemands(e) ==
  LET a == Dt(e.a) IN
  <<
    <<"C11.noerr",  e.ok>>,
    <<"C11.layout", e.out = BinEncode(a)>>,
    <<"C11.len7",   Len(e.out) = 7>>,
    <<"C11.stable", e.out2 = BinEncode(a)>>,      \* again after the caller overwrote the first result
    <<"C11.back",   e.back = <<1, a.y, a.m, a.d>> >>
  >>

\* C07: order, differences
CmpDemands(e) ==
  LET a == Dt(e.a)  b == Dt(e.b)
      inOrd == a.y >= -2000000 /\ a.y <= 2000000 /\ b.y >= -2000000 /\ b.y <= 2000000   \* ordinals and their difference fit 32 bits
      diff == IF inOrd THEN Ord(a) - Ord(b) ELSE 0
      inDur == inOrd /\ diff <= DurationRangeDays /\ diff >= -DurationRangeDays
  IN <<
    <<"C07.before",  e.before = Before(a, b)>>,
    <<"C07.after",   e.after = After(a, b)>>,
    <<"C07.equal",   e.equal = Equal(a, b)>>,
    <<"C07.tricho",  (IF e.before THEN 1 ELSE 0) + (IF e.after THEN 1 ELSE 0) + (IF e.equal THEN 1 ELSE 0) = 1>>,
    <<"C07.ordinal", inOrd => (e.before = (Ord(a) < Ord(b)))>>,
    <<"C07.sub",     inDur => (e.subdays = diff /\ e.subrem)>>,
    <<"C07.between", inDur => e.between = diff>>,
    <<"C07.iszero",  e.azero = (a = ZeroDate)>>
  >>

AddDemands(e) ==
  << <<"C07.add", Dt(e.r) = AddYMD(Dt(e.a), e.dy, e.dm, e.dd)>> >>

AddDurDemands(e) ==
  LET neg == e.secs < 0 \/ (e.secs = 0 /\ e.nanos < 0)
      q == e.days + (IF neg THEN -1 ELSE 0) IN
  << <<"C07.adddur", Dt(e.r) = AddDurDays(Dt(e.a), q)>> >>

TimeDemands(e) ==
  LET a == Dt(e.a) IN
  << <<"C07.time",  e.t = <<a.y, a.m, a.d, 0, 0, 0, 0>> >>,
     <<"C07.utc",   e.utc>>,
     <<"C07.value", e.valeq>> >>

FromTimeDemands(e) ==
  LET want == <<e.t[1], e.t[2], e.t[3]>>
      x == D(e.t[1], e.t[2], e.t[3])
      \* the same instant nine hours further east: the wall clock moves on by e.off2 - e.off seconds
      secs == e.t[4] * 3600 + e.t[5] * 60 + e.t[6] + (e.off2 - e.off)
      small == x.y < 2000000000 /\ x.y > -2000000000       \* TLC integers are 32 bits wide
      x2 == IF small /\ secs >= 86400 THEN NextDay(x) ELSE x IN
  << <<"C07.fromtime", ~e.iszero => e.r = want>>,
     <<"C07.scan",     ~e.iszero => e.scan = <<1>> \o want>>,
     <<"H.off2",       e.off2 - e.off = 32400>>,
     <<"C07.fromtime_zone", (~e.iszero /\ small) => e.r2 = <<x2.y, x2.m, x2.d>> >>,
     <<"C07.time_after_fromtime", ~e.iszero => e.rt = <<e.t[1], e.t[2], e.t[3], 0, 1>> >> >>

\* C15
FBuildDemands(e, r) ==
  << <<"C15.build_ok",   IsOk(r) => e.ok>>,
     <<"C15.build_fail", IsFail(r) => (~e.ok /\ SentinelsOK(r, e.is))>> >>

FContainsDemands(e, r) ==
  << <<"C15.contains", e.r = r.v>> >>

DateStep(e) ==
  CASE e.op = "date.set" ->
         DateSetMax(e.max) /\ Note(<<>>) /\ UNCHANGED ctx
    [] e.op = "date.rt" ->
         /\ UNCHANGED dvars
         /\ Note(RtDemands(e))
         /\ ctx' = [k |-> "date", v |-> D(e.y, e.m, e.d)]
    [] e.op = "date.parse" ->
         /\ DateParse(e.in, e.rule)
         /\ Note(ParseDemands(e, dRet'))
         /\ UNCHANGED ctx
    [] e.op = "date.utext" ->
         DateUnmarshalText(e.in) /\ Note(UTextDemands(e, dRet', dRecv', Dt(e.recv))) /\ UNCHANGED ctx
    [] e.op = "date.unbin" ->
         \* the model receiver is set to the logged pre-state, then the action runs
         /\ LET r == BinDecodeRef(e.in) IN
              /\ dRet' = r
              /\ dRecv' = Dt(e.after)               \* re-synchronise with the real receiver
              /\ Note(UnbinDemands(e, r))
         /\ UNCHANGED <<dMax, dFilt, dVars, ctx>>
    [] e.op = "date.bin"      -> UNCHANGED dvars /\ Note(BinDemands(e)) /\ UNCHANGED ctx
    [] e.op = "date.cmp"      -> UNCHANGED dvars /\ Note(CmpDemands(e)) /\ UNCHANGED ctx
    [] e.op = "date.add"      -> UNCHANGED dvars /\ Note(AddDemands(e)) /\ UNCHANGED ctx
    [] e.op = "date.adddur"   -> UNCHANGED dvars /\ Note(AddDurDemands(e)) /\ UNCHANGED ctx
    [] e.op = "date.time"     -> UNCHANGED dvars /\ Note(TimeDemands(e)) /\ UNCHANGED ctx
    [] e.op = "date.today"    -> UNCHANGED dvars /\ UNCHANGED ctx
                                 /\ Note(<< <<"X.today", e.r = e.before \/ e.r = e.after>> >>)   \* the local calendar date, read between two clock readings
    [] e.op = "date.fromtime" -> UNCHANGED dvars /\ Note(FromTimeDemands(e)) /\ UNCHANGED ctx
    [] e.op = "date.freset" ->
         /\ dFilt' = <<>> /\ dVars' = [from |-> NoDate, to |-> NoDate] /\ dRet' = [k |-> "unit"]
         /\ UNCHANGED <<dMax, dRecv, ctx>> /\ Note(<<>>)
    [] e.op = "date.vars" ->
         DateSetVars(OptD(e.from), OptD(e.to)) /\ Note(<<>>) /\ UNCHANGED ctx
    [] e.op = "date.fbuild" ->
         \* DateFilterBuild, re-synchronised with the real outcome so that a mismatch never
         \* dead-ends the trace: the filter list follows what the code actually built
         /\ LET r == FilterBuildRef(dVars.from, dVars.to) IN
              /\ dRet' = r
              /\ dFilt' = IF e.ok THEN Append(dFilt, [from |-> dVars.from, to |-> dVars.to]) ELSE dFilt
              /\ Note(FBuildDemands(e, r))
         /\ UNCHANGED <<dMax, dRecv, dVars, ctx>>
    [] e.op = "date.fcontains" ->
         DateFilterContains(e.i, Dt(e.p)) /\ Note(FContainsDemands(e, dRet')) /\ UNCHANGED ctx

IsDateOp(e) == e.op \in {"date.today", "date.utext", "date.set", "date.rt", "date.parse", "date.unbin", "date.bin", "date.cmp",
                          "date.add", "date.adddur", "date.time", "date.fromtime", "date.freset",
                          "date.vars", "date.fbuild", "date.fcontains"}

=============================================================================
