--------------------------- MODULE TraceOverride ---------------------------
(* Binding of the ovr events to module Override (specification growth).    *)
EXTENDS Override, TraceBase, DateRef, RomanRef, SemRef, SizeRef, UURef

DefOut(e) == CASE e.pkg = "date"  -> FmtDate(D(e.val[1], e.val[2], e.val[3]), FALSE)
               [] e.pkg = "roman" -> FmtRoman(e.val, e.rfmt)
               [] e.pkg = "sem"   -> SeqToStr(FmtSem([major |-> e.val.major, minor |-> e.val.minor, patch |-> e.val.patch,
                                                       pre |-> e.val.pre, build |-> e.val.build], FALSE))
               [] e.pkg = "size"  -> FmtSize(e.val, 0)
               [] e.pkg = "uu"    -> FmtID(e.val)
Plain(e) == IF e.pkg = "size" THEN DigStr(e.val) ELSE ""

PropOf(pkg) == CASE pkg = "date" -> "C01" [] pkg = "roman" -> "C02" [] pkg = "sem" -> "C03" [] pkg = "size" -> "C13" [] pkg = "uu" -> "C05"

ObsDemands(e) ==
  LET def == DefOut(e)
      m == MarshalRef(e.pkg, def, Plain(e), e.unitoff) IN
  <<
    <<"X.ovr_string",  e.str = StringRef(e.pkg, def, Plain(e))>>,
    <<"X.ovr_verb",    e.vs = StringRef(e.pkg, def, Plain(e))>>,
    <<"X.ovr_marshal", e.mt.ok = m.ok /\ (m.ok => e.mt.out = m.out)>>,
    <<"X.ovr_pretty",  e.pkg = "size" => (e.prettypanic = (oFmt["size"] = "error"))>>,
    <<"X.ovr_urn",     e.pkg = "uu" => e.urn = "urn:uuid:" \o def>>,
    \* with the default formatter in place (again), String() and %s are the property's own rendering,
    \* whatever was installed earlier in the process
    <<PropOf(e.pkg) \o ".restored", oFmt[e.pkg] = "default" => (e.str = def /\ e.vs = def)>>
  >>

\* UnmarshalText with an overridden Parser, receiver preset to e.pre; stub parsers return e.stubval
OUTextDemands(e) ==
  <<
    <<"X.ovr_parse_error", oParse[e.pkg] = "error" => (~e.ok /\ e.after = e.pre)>>,
    <<"X.ovr_parse_stub",  oParse[e.pkg] = "stub" => (e.ok /\ e.after = e.stubval)>>,
    <<"C17.recv",          ~e.ok => e.after = e.pre>>
  >>

\* Ver.Compare consults the ComparePreRelease variable exactly when the cores are equal, and then
\* returns what it returns; with the default in place again the order is the section-11 order
VOf(x) == [major |-> x.major, minor |-> x.minor, patch |-> x.patch, pre |-> x.pre, build |-> x.build]
CmpOvrDemands(e) ==
  LET a == VOf(e.a)  b == VOf(e.b)
      same == SameCore(a, b) IN
  <<
    <<"X.ovr_compare_used",  e.calls = (IF same THEN 1 ELSE 0)>>,
    <<"X.ovr_compare_value", e.res = (IF same THEN e.stub ELSE VerCmp11(a, b))>>,
    <<"C06.restored",        ~VerDeparture(a, b) => e.plain = VerCmp11(a, b)>>
  >>

OverrideStep(e) ==
  CASE e.op = "ovr.cmp" -> UNCHANGED ovars /\ Note(CmpOvrDemands(e))
    [] e.op = "ovr.set" -> OverrideSet(e.pkg, e.fmt, e.parse) /\ Note(<<>>)
    [] e.op = "ovr.obs" -> UNCHANGED ovars /\ Note(ObsDemands(e))
    [] e.op = "ovr.utext" -> UNCHANGED ovars /\ Note(OUTextDemands(e))
IsOverrideOp(e) == e.op \in {"ovr.set", "ovr.obs", "ovr.utext", "ovr.cmp"}
=============================================================================
