------------------------------ MODULE TraceUU ------------------------------
(* Binding of the events of package uu to the actions of module UU.        *)
EXTENDS UU, TraceBase

UpperStr(s) == SeqToStr([i \in 1..Len(s) |-> ToUpperB(StrToSeq(s)[i])])

\* C05 / C16: every output path of one ID, its accessors, and the four texts parsed back
UFmtDemands(e) ==
  LET id == e.id
      txt == FmtID(id)
      urn == FmtURN(id)
      fitsU == uMax = 0 \/ 45 <= uMax
      fitsP == uMax = 0 \/ 36 <= uMax
      good == <<1>> \o id
      id2 == [id EXCEPT ![32] = IF id[32] % 2 = 0 THEN id[32] + 1 ELSE id[32] - 1]
  IN <<
    <<"H.sib",       e.sibtext = FmtID(id2)>>,
    \* one read buffer: this record, then refilled with an id that differs in its last bit
    <<"C05.reuse",   fitsP => e.reuse = <<good, <<1>> \o id2>> >>,
    <<"H.id",        IsID(id)>>,
    <<"C05.fmt",     e.f0 = txt>>,
    <<"C05.fmturn",  e.fu = urn>>,
    <<"C05.string",  e.str = txt>>,
    <<"C05.mtext",   e.mt = txt>>,
    <<"C05.stable",  e.mt2 = txt /\ e.str2 = txt>>,
    <<"C05.held",    e.held = txt /\ e.heldf = txt /\ e.helds = txt /\ e.heldu = urn>>,
    <<"C05.verb_s",  e.vs = txt>>,
    <<"C05.verb_u",  e.vu = urn>>,
    <<"C16.urn",     e.urn = urn>>,
    <<"C05.urn",     e.urn = urn>>,
    <<"C05.version", e.version = Version(id)>>,
    <<"C05.variant", e.variant = Variant(id)>>,
    \* back[1..3]: lower text via string, bytes, UnmarshalText; [4..6] upper; [7..9] urn lower; [10..12] URN + upper digits
    <<"C05.back_plain", fitsP => \A i \in 1..6 : e.back[i] = good>>,
    <<"C05.back_urn",   fitsU => \A i \in 7..12 : e.back[i] = good>>
  >>

\* specification growth: the cause of a refusal names the first byte that is not a hexadecimal digit
\* (plain form; all hyphens in place)
FirstBadDigit(b, up) ==
  LET bad == {i \in 1..32 : HexVal(b[DigitPos[i]], up) < 0} IN
  IF bad = {} THEN -1 ELSE b[DigitPos[CHOOSE i \in bad : \A j \in bad : i <= j]]

UParseDemands(e, r) ==
  <<
    <<"X.baddigit", (Len(e.in) = 36 /\ (uMax = 0 \/ 36 <= uMax)) =>
                       e.baddigit = (IF \A q \in HyphenPos : e.in[q] = Hyphen THEN FirstBadDigit(e.in, ~Bit(e.rule, RuleDisableUpper)) ELSE -1)>>,
    <<"C18.nopanic",  ~e.panic>>,
    <<"C05.accept",   IsOk(r) => e.ok>>,
    <<"C05.value",    (IsOk(r) /\ e.ok) => e.v = r.v>>,
    <<"C05.reject",   IsFail(r) => ~e.ok>>,
    <<"C05.zero",     (~e.ok /\ ~e.panic) => e.v = ZeroID>>,
    <<"C05.typed",    (IsFail(r) /\ ~e.ok) => e.typed>>,
    <<"C05.sentinel", (IsFail(r) /\ ~e.ok /\ ~e.panic /\ r.req # {"ErrInputTooLong"}) => SentinelsOK(r, e.is)>>,
    <<"C18.toolong",  (IsFail(r) /\ ~e.ok /\ ~e.panic /\ r.req = {"ErrInputTooLong"}) => SentinelsOK(r, e.is)>>,
    <<"C18.notlong",  (IsFail(r) /\ ~e.ok /\ "ErrInputTooLong" \in r.forb) => "ErrInputTooLong" \notin SeqRange(e.is)>>,  \* within the limit: never refused for its length
    <<"C18.noecho",   (IsFail(r) /\ r.req = {"ErrInputTooLong"}) => ~e.echo>>
  >>

UUStep(e) ==
  CASE e.op = "uu.set" -> UUSetMax(e.max) /\ Note(<<>>)
    [] e.op = "uu.fmt" -> UNCHANGED uvars /\ Note(UFmtDemands(e))
    [] e.op = "uu.utext" -> UUUnmarshalText(e.in) /\ Note(UTextDemands(e, uRet', uRecv', e.recv))
    [] e.op = "uu.parse" -> UUParse(e.in, e.rule) /\ Note(UParseDemands(e, uRet'))

IsUUOp(e) == e.op \in {"uu.utext", "uu.set", "uu.fmt", "uu.parse"}
=============================================================================
