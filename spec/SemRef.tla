------------------------------- MODULE SemRef -------------------------------
(***************************************************************************)
(* Reference semantics of package sem (pure operators).                    *)
(*                                                                         *)
(* The SemVer 2.0.0 grammar is given twice: ParseCore/IsPre/IsBuild work   *)
(* on the text split at separators (recursive descent over identifier      *)
(* lists, following the BNF), SemScan is a single left-to-right scanner    *)
(* with a small control state.  MC_C03 checks that they agree on every     *)
(* string of the bounded domain.  Numbers are BigDec digit sequences, so   *)
(* the 2^64-1 bound is exact.                                              *)
(***************************************************************************)
EXTENDS Bytes, Expect, BigDec

FormVersion == 1
FormTag == 2
cv == 118       \* 'v'

IsIdentChar(b) == IsDigit(b) \/ IsAlpha(b) \/ b = Hyphen
AllIdent(q)    == \A i \in 1..Len(q) : IsIdentChar(q[i])

IsNumIdent(q)    == Len(q) >= 1 /\ AllDigits(q) /\ (Len(q) = 1 \/ q[1] # 48)
IsAlnumIdent(q)  == Len(q) >= 1 /\ AllIdent(q) /\ \E i \in 1..Len(q) : ~IsDigit(q[i])
IsDigitsIdent(q) == Len(q) >= 1 /\ AllDigits(q)
IsPreIdent(q)    == IsAlnumIdent(q) \/ IsNumIdent(q)
IsBuildIdent(q)  == IsAlnumIdent(q) \/ IsDigitsIdent(q)

\* index of the first byte of t in set S at or after i, or Len(t)+1
RECURSIVE FirstIn(_, _, _)
FirstIn(t, S, i) == IF i > Len(t) THEN i ELSE IF t[i] \in S THEN i ELSE FirstIn(t, S, i + 1)

\* split at byte c: <<"a", "", "b">> for "a..b"; the empty text gives <<"">>
\* (index based, so that long inputs cost time linear in their length plus the number of pieces squared)
RECURSIVE SplitFrom(_, _, _)
SplitFrom(t, c, start) == LET i == FirstIn(t, {c}, start) IN
                          IF i > Len(t) THEN <<SubSeq(t, start, Len(t))>>
                          ELSE <<SubSeq(t, start, i - 1)>> \o SplitFrom(t, c, i + 1)
SplitOn(t, c) == SplitFrom(t, c, 1)

IsPre(t)   == LET ids == SplitOn(t, Dot) IN \A i \in 1..Len(ids) : IsPreIdent(ids[i])
IsBuild(t) == LET ids == SplitOn(t, Dot) IN \A i \in 1..Len(ids) : IsBuildIdent(ids[i])

\* definition 1 (by splitting): the body after an optional tag prefix
\* result: [ok |-> TRUE, major, minor, patch (ASCII digit bytes), pre, build] or [ok |-> FALSE]
ParseBody(t) ==
  LET e == FirstIn(t, {Hyphen, Plus}, 1)
      core == SplitOn(SubSeq(t, 1, e - 1), Dot)
      rest == SubSeq(t, e, Len(t))                    \* "", "-pre", "-pre+build", "+build"
      p == IF rest # <<>> /\ rest[1] = Hyphen THEN FirstIn(rest, {Plus}, 1) ELSE 1
      pre == IF rest # <<>> /\ rest[1] = Hyphen THEN SubSeq(rest, 2, p - 1) ELSE <<>>
      hasPre == rest # <<>> /\ rest[1] = Hyphen
      afterPre == SubSeq(rest, p, Len(rest))          \* "" or "+build"
      hasBuild == afterPre # <<>>
      build == IF hasBuild THEN SubSeq(afterPre, 2, Len(afterPre)) ELSE <<>>
  IN IF /\ Len(core) = 3
        /\ \A i \in 1..3 : IsNumIdent(core[i]) /\ FitsU64(OfAscii(core[i]))
        /\ hasPre => IsPre(pre)
        /\ hasBuild => IsBuild(build)
     THEN [ok |-> TRUE, major |-> core[1], minor |-> core[2], patch |-> core[3], pre |-> pre, build |-> build]
     ELSE [ok |-> FALSE]

\* definition 2: one left-to-right scan.  Control state:
\*   ph = 1..3 core number index, 4 pre-release, 5 build
\*   n = length of the current identifier, z = it starts with '0', ad = it is all digits
RECURSIVE Scan(_, _, _, _, _, _)
Scan(t, i, ph, n, z, ad) ==
  LET endOK == IF ph <= 3 THEN n >= 1 /\ (n = 1 \/ ~z)
               ELSE IF ph = 4 THEN n >= 1 /\ (~ad \/ n = 1 \/ ~z)
               ELSE n >= 1
  IN
  IF i > Len(t) THEN endOK /\ ph >= 3
  ELSE LET c == t[i] IN
    IF ph <= 3 THEN
         IF IsDigit(c) THEN Scan(t, i + 1, ph, n + 1, IF n = 0 THEN c = 48 ELSE z, TRUE)
         ELSE IF c = Dot /\ ph < 3 THEN endOK /\ Scan(t, i + 1, ph + 1, 0, FALSE, TRUE)
         ELSE IF c = Hyphen /\ ph = 3 THEN endOK /\ Scan(t, i + 1, 4, 0, FALSE, TRUE)
         ELSE IF c = Plus /\ ph = 3 THEN endOK /\ Scan(t, i + 1, 5, 0, FALSE, TRUE)
         ELSE FALSE
    ELSE IF IsIdentChar(c) THEN Scan(t, i + 1, ph, n + 1, IF n = 0 THEN c = 48 ELSE z, ad /\ IsDigit(c))
    ELSE IF c = Dot THEN endOK /\ Scan(t, i + 1, ph, 0, FALSE, TRUE)
    ELSE IF c = Plus /\ ph = 4 THEN endOK /\ Scan(t, i + 1, 5, 0, FALSE, TRUE)
    ELSE FALSE
\* the scanner does not know about the 2^64-1 bound
SemScan(t) == Scan(t, 1, 1, 0, FALSE, TRUE)

\* the entry points: forms is a set of allowed forms
ParseSemRef(t, forms, max) ==
  IF Len(t) = 0 THEN Fail({}, {}, NotTooLong)
  ELSE IF max # 0 /\ Len(t) > max THEN Fail({"ErrInputTooLong"}, {}, {})
  ELSE LET tag == t[1] = cv
           body == IF tag THEN Tail(t) ELSE t
           allowed == IF tag THEN FormTag \in forms ELSE FormVersion \in forms
           b == ParseBody(body)
       IN IF allowed /\ b.ok
          THEN Ok([major |-> b.major, minor |-> b.minor, patch |-> b.patch, pre |-> b.pre, build |-> b.build])
          ELSE Fail({}, {}, NotTooLong)

\* formatting: numbers as ASCII digit bytes
FmtSem(v, tag) == (IF tag THEN <<cv>> ELSE <<>>) \o v.major \o <<Dot>> \o v.minor \o <<Dot>> \o v.patch
                  \o (IF v.pre # <<>> THEN <<Hyphen>> \o v.pre ELSE <<>>)
                  \o (IF v.build # <<>> THEN <<Plus>> \o v.build ELSE <<>>)

\* Ver.Valid: only pre-release and build can be invalid
ValidVer(v) == (v.pre = <<>> \/ IsPre(v.pre)) /\ (v.build = <<>> \/ IsBuild(v.build))
ValidErr(v) == IF ~(v.pre = <<>> \/ IsPre(v.pre)) THEN "ErrInvalidPreRelease" ELSE "ErrInvalidBuild"

(***************************************************************************)
(* Precedence, SemVer 2.0.0 section 11 (C06), on valid pre-release texts.  *)
(* Results are sign(a - b): -1, 0, 1.                                      *)
(***************************************************************************)
\* ASCII (byte-wise) order of two byte sequences
RECURSIVE AsciiCmp(_, _)
AsciiCmp(a, b) == IF a = <<>> THEN (IF b = <<>> THEN 0 ELSE -1)
                  ELSE IF b = <<>> THEN 1
                  ELSE IF a[1] < b[1] THEN -1 ELSE IF a[1] > b[1] THEN 1
                  ELSE AsciiCmp(Tail(a), Tail(b))

IdentCmp(a, b) ==
  LET an == AllDigits(a)  bn == AllDigits(b) IN
  IF an /\ bn THEN BCmp(OfAscii(a), OfAscii(b))       \* numerically
  ELSE IF an THEN -1                                 \* numeric below alphanumeric
  ELSE IF bn THEN 1
  ELSE AsciiCmp(a, b)

RECURSIVE IdListCmp(_, _)
IdListCmp(x, y) == IF x = <<>> THEN (IF y = <<>> THEN 0 ELSE -1)     \* a longer list above its own prefix
                   ELSE IF y = <<>> THEN 1
                   ELSE LET c == IdentCmp(x[1], y[1]) IN
                        IF c # 0 THEN c ELSE IdListCmp(Tail(x), Tail(y))

\* pre-release texts; the empty text (a release) ranks above any pre-release
PreCmp11(a, b) == IF a = <<>> THEN (IF b = <<>> THEN 0 ELSE 1)
                  ELSE IF b = <<>> THEN -1
                  ELSE IdListCmp(SplitOn(a, Dot), SplitOn(b, Dot))

\* the deliberate departure pinned by the library's own tests (a01 vs a1): the first differing
\* identifiers are both alphanumeric and, after their longest common prefix, both remainders
\* consist of digits only (possibly empty)
RECURSIVE CommonLen(_, _)
CommonLen(a, b) == IF a = <<>> \/ b = <<>> \/ a[1] # b[1] THEN 0 ELSE 1 + CommonLen(Tail(a), Tail(b))
RECURSIVE FirstDiff(_, _)
FirstDiff(x, y) == IF x = <<>> \/ y = <<>> THEN <<>>
                   ELSE IF x[1] # y[1] THEN <<x[1], y[1]>> ELSE FirstDiff(Tail(x), Tail(y))
Departure(a, b) ==
  a # <<>> /\ b # <<>> /\
  LET d == FirstDiff(SplitOn(a, Dot), SplitOn(b, Dot)) IN
  d # <<>> /\ ~AllDigits(d[1]) /\ ~AllDigits(d[2]) /\
  LET k == CommonLen(d[1], d[2]) IN
  AllDigits(SubSeq(d[1], k + 1, Len(d[1]))) /\ AllDigits(SubSeq(d[2], k + 1, Len(d[2])))

\* whole versions: core numerically, then pre-release; build ignored
VerCmp11(v, w) ==
  LET c1 == BCmp(OfAscii(v.major), OfAscii(w.major))
      c2 == BCmp(OfAscii(v.minor), OfAscii(w.minor))
      c3 == BCmp(OfAscii(v.patch), OfAscii(w.patch)) IN
  IF c1 # 0 THEN c1 ELSE IF c2 # 0 THEN c2 ELSE IF c3 # 0 THEN c3 ELSE PreCmp11(v.pre, w.pre)
SameCore(v, w) == v.major = w.major /\ v.minor = w.minor /\ v.patch = w.patch
VerDeparture(v, w) == SameCore(v, w) /\ Departure(v.pre, w.pre)

=============================================================================
