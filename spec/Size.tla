-------------------------------- MODULE Size --------------------------------
(***************************************************************************)
(* State machine of package size: the three marshalling switches,          *)
(* DefaultRule, MaxInputLength, MaxObjectKeys and one receiver.            *)
(***************************************************************************)
EXTENDS SizeJSON

VARIABLES zSw,     \* [dmtu, dmjs, dmjo] : DisableMarshalTextUnit / JSONStringForm / JSONObjectForm
          zRule,   \* DefaultRule
          zMax,    \* MaxInputLength
          zKeys,   \* MaxObjectKeys
          zRecv,   \* receiver (a size)
          zRet
zvars == <<zSw, zRule, zMax, zKeys, zRecv, zRet>>

SizeInit == /\ zSw = [dmtu |-> FALSE, dmjs |-> FALSE, dmjo |-> FALSE]
            /\ zRule = RuleEnableJSONStringForm + RuleEnableJSONObjectForm
            /\ zMax = 128 /\ zKeys = 16 /\ zRecv = BZero /\ zRet = [k |-> "init"]

SizeSet(sw, rule, max, keys) == /\ zSw' = sw /\ zRule' = rule /\ zMax' = max /\ zKeys' = keys
                                /\ zRet' = [k |-> "unit"] /\ UNCHANGED zRecv

IsJSONRule(rule) == Bit(rule, RuleEnableJSONStringForm) \/ Bit(rule, RuleEnableJSONObjectForm)

\* MarshalText: the shortened rendering, or plain bytes when the unit is switched off
MarshalTextRef(n, sw) == IF sw.dmtu THEN DigStr(BNorm(n)) ELSE FmtSize(n, 0)
\* MarshalJSON: object form, else quoted text form, else number of bytes
MarshalJSONRef(n, sw) ==
  IF ~sw.dmjo THEN LET s == Shorten(n) IN "{\"value\":" \o DigStr(s.value) \o ",\"unit\":\"" \o s.unit \o "\"}"
  ELSE IF ~sw.dmjs THEN "\"" \o MarshalTextRef(n, sw) \o "\""
  ELSE DigStr(BNorm(n))

\* meaning of the implementation's own JSON output under the SPECIFIED parser, for the shapes
\* the marshaller is documented to produce; an unrecognised shape is no demand here
MjMeaning(b) ==
  LET L == Len(b) IN
  IF L >= 1 /\ AllDigits(b) THEN ParseSizeTextRef(b, 0)
  ELSE IF L >= 2 /\ b[1] = 34 /\ b[L] = 34 /\ \A i \in 2..(L - 1) : b[i] # 34 /\ b[i] # 92
       THEN ParseSizeTextRef(SubSeq(b, 2, L - 1), 0)
  ELSE LET p1 == StrToSeq("{\"value\":")  p2 == StrToSeq(",\"unit\":\"") IN
       IF L >= 22 /\ SubSeq(b, 1, 9) = p1 THEN
            LET e == FirstNonDigit(b, 10) IN
            IF e > 10 /\ e + 8 <= L /\ SubSeq(b, e, e + 8) = p2 /\ b[L] = 125 /\ b[L - 1] = 34
                 /\ \A i \in (e + 9)..(L - 2) : b[i] # 34 /\ b[i] # 92
            THEN NewSizeRef("int", OfAscii(SubSeq(b, 10, e - 1)), SubSeq(b, e + 9, L - 2))
            ELSE DontCare
       ELSE DontCare

\* DefaultParser(input, rule): limit first, then JSON or text mode.  doc/wf describe the input
\* as a JSON document (only used in JSON mode)
SizeParseRef(t, rule, doc, wf, max, keys) ==
  IF max # 0 /\ Len(t) > max THEN Fail({"ErrInputTooLong"}, {}, {})
  ELSE IF IsJSONRule(rule) THEN
       LET r == ParseSizeDocRef(doc, wf, rule, keys) IN
       IF IsFail(r) THEN [r EXCEPT !.forb = NotTooLong] ELSE r
  ELSE LET r == ParseSizeTextRef(t, rule) IN
       IF IsFail(r) THEN [r EXCEPT !.forb = NotTooLong] ELSE r

SizeParse(t, rule, doc, wf) == zRet' = SizeParseRef(t, rule, doc, wf, zMax, zKeys)
                               /\ UNCHANGED <<zSw, zRule, zMax, zKeys, zRecv>>

\* UnmarshalText masks DefaultRule down to RuleDisableUnit; UnmarshalJSON uses DefaultRule as is
SizeUnmarshalText(t) ==
  LET r == SizeParseRef(t, IF Bit(zRule, RuleDisableUnit) THEN RuleDisableUnit ELSE 0, [k |-> "other"], FALSE, zMax, zKeys) IN
  /\ zRet' = r /\ zRecv' = IF IsOk(r) THEN r.v ELSE zRecv
  /\ UNCHANGED <<zSw, zRule, zMax, zKeys>>
SizeUnmarshalJSON(t, doc, wf) ==
  LET r == SizeParseRef(t, zRule, doc, wf, zMax, zKeys) IN
  /\ zRet' = r /\ zRecv' = IF IsOk(r) THEN r.v ELSE zRecv
  /\ UNCHANGED <<zSw, zRule, zMax, zKeys>>
=============================================================================
