-------------------------------- MODULE Size --------------------------------
(***************************************************************************)
(* State machine of package size: the three marshalling switches,          *)
(* DefaultRule, MaxInputLength, MaxObjectKeys and one receiver.            *)
(***************************************************************************)
EXTENDS SizeJSON

VARIABLES zSw,     \* [dmtu, dmjs, dmjo] : DisableMarshalTextUnit / JSONStringForm / JSONObjectForm
          zRule,   \* DefaultRule
          zMax,    \* MaxInputLength
          zKeys,   \* MaxObjectKeys
          zRecv,   \* receiver (a size)
          zRet
zvars == <<zSw, zRule, zMax, zKeys, zRecv, zRet>>

SizeInit == /\ zSw = [dmtu |-> FALSE, dmjs |-> FALSE, dmjo |-> FALSE]
            /\ zRule = RuleEnableJSONStringForm + RuleEnableJSONObjectForm
            /\ zMax = 128 /\ zKeys = 16 /\ zRecv = BZero /\ zRet = [k |-> "init"]

SizeSet(sw, rule, max, keys) == /\ zSw' = sw /\ zRule' = rule /\ zMax' = max /\ zKeys' = keys
                                /\ zRet' = [k |-> "unit"] /\ UNCHANGED zRecv

IsJSONRule(rule) == Bit(rule, RuleEnableJSONStringForm) \/ Bit(rule, RuleEnableJSONObjectForm)

\* MarshalText: the shortened rendering, or plain bytes when the unit is switched off
MarshalTextRef(n, sw) == IF sw.dmtu THEN DigStr(BNorm(n)) ELSE FmtSize(n, 0)
\* MarshalJSON: object form, else quoted text form, else number of bytes
MarshalJSONRef(n, sw) ==
  IF ~sw.dmjo THEN LET s == Shorten(n) IN "{\"value\":" \o DigStr(s.value) \o ",\"unit\":\"" \o s.unit \o "\"}"
  ELSE IF ~sw.dmjs THEN "\"" \o MarshalTextRef(n, sw) \o "\""
  ELSE DigStr(BNorm(n))

\* DefaultParser(input, rule): limit first, then JSON or text mode.  doc/wf describe the input
\* as a JSON document (only used in JSON mode)
SizeParseRef(t, rule, doc, wf, max, keys) ==
  IF max # 0 /\ Len(t) > max THEN Fail({"ErrInputTooLong"}, {}, {})
  ELSE IF IsJSONRule(rule) THEN
       LET r == ParseSizeDocRef(doc, wf, rule, keys) IN
       IF IsFail(r) THEN [r EXCEPT !.forb = NotTooLong] ELSE r
  ELSE LET r == ParseSizeTextRef(t, rule) IN
       IF IsFail(r) THEN [r EXCEPT !.forb = NotTooLong] ELSE r

SizeParse(t, rule, doc, wf) == zRet' = SizeParseRef(t, rule, doc, wf, zMax, zKeys)
                               /\ UNCHANGED <<zSw, zRule, zMax, zKeys, zRecv>>

\* UnmarshalText masks DefaultRule down to RuleDisableUnit; UnmarshalJSON uses DefaultRule as is
SizeUnmarshalText(t) ==
  LET r == SizeParseRef(t, IF Bit(zRule, RuleDisableUnit) THEN RuleDisableUnit ELSE 0, [k |-> "other"], FALSE, zMax, zKeys) IN
  /\ zRet' = r /\ zRecv' = IF IsOk(r) THEN r.v ELSE zRecv
  /\ UNCHANGED <<zSw, zRule, zMax, zKeys>>
SizeUnmarshalJSON(t, doc, wf) ==
  LET r == SizeParseRef(t, zRule, doc, wf, zMax, zKeys) IN
  /\ zRet' = r /\ zRecv' = IF IsOk(r) THEN r.v ELSE zRecv
  /\ UNCHANGED <<zSw, zRule, zMax, zKeys>>
=============================================================================
