----------------------------- MODULE JsonGrammar -----------------------------
(***************************************************************************)
(* A byte-level recogniser of RFC 8259 JSON texts, as accepted by          *)
(* encoding/json's scanner (json.Valid): one value surrounded by optional  *)
(* white space; strings may contain any byte >= 0x20 other than '"' and    *)
(* the backslash, and the escapes quote, backslash, slash, b f n r t and    *)
(* u followed by four hexadecimal digits; a number is an optional minus,   *)
(* then 0 or a non-zero digit followed by digits, an optional fraction     *)
(* (point and at least one digit) and an optional exponent (e or E, an     *)
(* optional sign, at least one digit).                                     *)
(* Every Parse operator takes the text and a position and returns the      *)
(* position after the construct, or 0 if the construct is not there.       *)
(* Used to cross-check, inside the trace specification, the harness's      *)
(* claim that an input is exactly one well-formed JSON value (H.wf).       *)
(***************************************************************************)
EXTENDS Integers, Sequences

JIsWs(b) == b \in {32, 9, 10, 13}
JIsDigit(b) == b >= 48 /\ b <= 57
JIsHex(b) == JIsDigit(b) \/ (b >= 65 /\ b <= 70) \/ (b >= 97 /\ b <= 102)
JAt(t, i) == IF i >= 1 /\ i <= Len(t) THEN t[i] ELSE -1

RECURSIVE JSkipWs(_, _)
JSkipWs(t, i) == IF JIsWs(JAt(t, i)) THEN JSkipWs(t, i + 1) ELSE i

RECURSIVE JDigits(_, _)
JDigits(t, i) == IF JIsDigit(JAt(t, i)) THEN JDigits(t, i + 1) ELSE i     \* position after a (possibly empty) digit run

\* the literal word w (a sequence of bytes) at position i
JWord(t, i, w) == IF i + Len(w) - 1 <= Len(t) /\ SubSeq(t, i, i + Len(w) - 1) = w THEN i + Len(w) ELSE 0

JNumber(t, i) ==
  LET a == IF JAt(t, i) = 45 THEN i + 1 ELSE i                       \* optional minus
      b == IF JAt(t, a) = 48 THEN a + 1                               \* int
           ELSE IF JAt(t, a) >= 49 /\ JAt(t, a) <= 57 THEN JDigits(t, a + 1) ELSE 0
  IN IF b = 0 THEN 0 ELSE
     LET c == IF JAt(t, b) = 46 THEN (IF JDigits(t, b + 1) > b + 1 THEN JDigits(t, b + 1) ELSE 0) ELSE b   \* frac
     IN IF c = 0 THEN 0 ELSE
        IF JAt(t, c) \in {101, 69} THEN
             LET s == IF JAt(t, c + 1) \in {43, 45} THEN c + 2 ELSE c + 1 IN
             IF JDigits(t, s) > s THEN JDigits(t, s) ELSE 0
        ELSE c

\* inside a string, from position i (after the opening quote): position after the closing quote, or 0
RECURSIVE JStringBody(_, _)
JStringBody(t, i) ==
  LET c == JAt(t, i) IN
  IF c = -1 \/ (c >= 0 /\ c < 32) THEN 0
  ELSE IF c = 34 THEN i + 1
  ELSE IF c = 92 THEN
       LET x == JAt(t, i + 1) IN
       IF x \in {34, 92, 47, 98, 102, 110, 114, 116} THEN JStringBody(t, i + 2)
       ELSE IF x = 117 /\ JIsHex(JAt(t, i + 2)) /\ JIsHex(JAt(t, i + 3)) /\ JIsHex(JAt(t, i + 4)) /\ JIsHex(JAt(t, i + 5))
            THEN JStringBody(t, i + 6)
       ELSE 0
  ELSE JStringBody(t, i + 1)
JString(t, i) == IF JAt(t, i) = 34 THEN JStringBody(t, i + 1) ELSE 0

RECURSIVE JValue(_, _), JMembers(_, _), JElements(_, _)
\* members after '{' ws, at least one: string ws ':' ws value ws ( ',' ws members | '}' )
JMembers(t, i) ==
  LET k == JString(t, i) IN
  IF k = 0 THEN 0 ELSE
  LET c == JSkipWs(t, k) IN
  IF JAt(t, c) # 58 THEN 0 ELSE
  LET v == JValue(t, JSkipWs(t, c + 1)) IN
  IF v = 0 THEN 0 ELSE
  LET e == JSkipWs(t, v) IN
  IF JAt(t, e) = 125 THEN e + 1
  ELSE IF JAt(t, e) = 44 THEN JMembers(t, JSkipWs(t, e + 1))
  ELSE 0
JElements(t, i) ==
  LET v == JValue(t, i) IN
  IF v = 0 THEN 0 ELSE
  LET e == JSkipWs(t, v) IN
  IF JAt(t, e) = 93 THEN e + 1
  ELSE IF JAt(t, e) = 44 THEN JElements(t, JSkipWs(t, e + 1))
  ELSE 0
JValue(t, i) ==
  LET c == JAt(t, i) IN
  IF c = 123 THEN (LET j == JSkipWs(t, i + 1) IN IF JAt(t, j) = 125 THEN j + 1 ELSE JMembers(t, j))
  ELSE IF c = 91 THEN (LET j == JSkipWs(t, i + 1) IN IF JAt(t, j) = 93 THEN j + 1 ELSE JElements(t, j))
  ELSE IF c = 34 THEN JString(t, i)
  ELSE IF c = 116 THEN JWord(t, i, <<116, 114, 117, 101>>)
  ELSE IF c = 102 THEN JWord(t, i, <<102, 97, 108, 115, 101>>)
  ELSE IF c = 110 THEN JWord(t, i, <<110, 117, 108, 108>>)
  ELSE JNumber(t, i)

\* exactly one value with optional surrounding white space
JsonValid(t) == LET v == JValue(t, JSkipWs(t, 1)) IN v # 0 /\ JSkipWs(t, v) = Len(t) + 1
=============================================================================
