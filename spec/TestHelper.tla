----------------------------- MODULE TestHelper -----------------------------
(***************************************************************************)
(* The marshal-test helpers of package test (C20) as a small interpreter.  *)
(*                                                                         *)
(* A case is a record                                                      *)
(*   c   : "both" | "marshal" | "unmarshal"      (the Constraint)           *)
(*   b,a : "nil" | "ok" | "err" | "panic"        (Before / After hook)      *)
(*   beh : what the (un)marshaler does:                                     *)
(*         "right"   correct data / value, no error                         *)
(*         "wrong"   different data / value, no error                       *)
(*         "error"   an error, empty result                                 *)
(*         "errdata" an error together with a non-empty result              *)
(*         "panic"   it panics (the helper turns that into an error)        *)
(*   exp : the error expectation:                                           *)
(*         "none" | "any" | "eq" | "ne" | "prefix_ok" | "prefix_no" |       *)
(*         "suffix_ok" | "suffix_no" | "match_ok" | "match_no" | "match_bad"*)
(*         (_ok / eq: constructed to hold for the error the behaviour       *)
(*          produces; _no / ne: constructed not to hold; match_bad: an      *)
(*          invalid regular expression)                                     *)
(* CaseFails says whether the helper of direction dir must report a        *)
(* failure for the case, per the property text.                            *)
(***************************************************************************)
EXTENDS Integers, Sequences, FiniteSets

Constraints == {"both", "marshal", "unmarshal"}
Hooks == {"nil", "ok", "err", "panic"}
Behaviours == {"right", "wrong", "error", "errdata", "panic"}
Expectations == {"none", "any", "eq", "ne", "prefix_ok", "prefix_no", "suffix_ok", "suffix_no", "match_ok", "match_no", "match_bad"}

Applicable(dir, c) == c.c = "both" \/ c.c = dir
HasError(c) == c.beh \in {"error", "errdata", "panic"}
PredicateHolds(c) == HasError(c) /\ c.exp \in {"any", "eq", "prefix_ok", "suffix_ok", "match_ok"}
HookFails(h) == h \in {"err", "panic"}

CaseFails(dir, c) ==
  IF ~Applicable(dir, c) THEN FALSE                              \* cases of the other direction are ignored
  ELSE IF HookFails(c.b) THEN TRUE                               \* failing Before hook
  ELSE IF HookFails(c.a) THEN TRUE                               \* failing After hook
  ELSE IF c.exp # "none" THEN
       (IF ~HasError(c) THEN TRUE                                \* missing error
        ELSE IF ~PredicateHolds(c) THEN TRUE                     \* unmet error predicate
        ELSE c.beh = "errdata")                                  \* non-empty result alongside an expected error
  ELSE (HasError(c) \/ c.beh = "wrong")                          \* unexpected error / differing data or value

\* The named deviation of the library (known finding): ErrorMatch with a valid pattern that does
\* not match a non-nil error returns false WITHOUT reporting, so the case silently passes.
CaseFailsLib(dir, c) ==
  IF Applicable(dir, c) /\ ~HookFails(c.b) /\ ~HookFails(c.a) /\ c.exp = "match_no" /\ HasError(c)
  THEN FALSE ELSE CaseFails(dir, c)

\* a list: the interface is checked on the first case; then every case
ListVerdict(dir, iface, cases, F(_, _)) ==
  IF Len(cases) = 0 THEN [k |-> "pass"]
  ELSE IF ~iface THEN
       (IF \E i \in 1..Len(cases) : Applicable(dir, cases[i]) THEN [k |-> "fail"] ELSE [k |-> "any"])
  ELSE IF \E i \in 1..Len(cases) : F(dir, cases[i]) THEN [k |-> "fail"] ELSE [k |-> "pass"]

\* combinations the harness can instantiate: a panic's error text carries a stack trace, so
\* "equal" and "has suffix" cannot be constructed to hold for it
Instantiable(c) == ~(c.beh = "panic" /\ c.exp \in {"eq", "suffix_ok"})
=============================================================================
