--------------------------------- MODULE UU ---------------------------------
(* State machine of package uu: MaxInputLength and one receiver.            *)
EXTENDS UURef

VARIABLES uMax, uRecv, uRet
uvars == <<uMax, uRecv, uRet>>

ZeroID == [i \in 1..32 |-> 0]
UUInit == uMax = 45 /\ uRecv = ZeroID /\ uRet = [k |-> "init"]

UUSetMax(n) == uMax' = n /\ uRet' = [k |-> "unit"] /\ UNCHANGED uRecv
UUParse(t, rule) == uRet' = ParseIDRef(t, rule, uMax) /\ UNCHANGED <<uMax, uRecv>>
UUUnmarshalText(t) == LET r == ParseIDRef(t, 0, uMax) IN
                      /\ uRet' = r
                      /\ uRecv' = IF IsOk(r) THEN r.v ELSE uRecv
                      /\ UNCHANGED uMax
=============================================================================
