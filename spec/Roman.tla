------------------------------- MODULE Roman -------------------------------
(***************************************************************************)
(* State machine of package roman: MaxInputLength, DefaultFormat and one   *)
(* receiver; one action per public operation.                              *)
(***************************************************************************)
EXTENDS RomanRef

VARIABLES rMax,    \* roman.MaxInputLength
          rFmt,    \* roman.DefaultFormat
          rRecv,   \* receiver (a number)
          rRet
rvars == <<rMax, rFmt, rRecv, rRet>>

RomanInit == rMax = 128 /\ rFmt = 0 /\ rRecv = 0 /\ rRet = [k |-> "init"]

RomanSet(max, fmt) == rMax' = max /\ rFmt' = fmt /\ rRet' = [k |-> "unit"] /\ UNCHANGED rRecv

\* DefaultFormatter(nil, n, f): independent of the state
RomanFormat(n, f) == rRet' = Ok(FmtRoman(n, f)) /\ UNCHANGED <<rMax, rFmt, rRecv>>

\* MarshalText / String / %s use DefaultFormat
RomanMarshalText(n) == rRet' = Ok(FmtRoman(n, rFmt)) /\ UNCHANGED <<rMax, rFmt, rRecv>>

RomanParse(t, rule) == rRet' = ParseRomanRef(t, rule, rMax) /\ UNCHANGED <<rMax, rFmt, rRecv>>

\* Valid accepts exactly what the parser accepts
RomanValid(t, rule) == LET r == ParseRomanRef(t, rule, rMax) IN
                       /\ rRet' = IF IsOk(r) THEN Ok(TRUE) ELSE r
                       /\ UNCHANGED <<rMax, rFmt, rRecv>>

RomanUnmarshalText(t) == LET r == ParseRomanRef(t, 0, rMax) IN
                         /\ rRet' = r
                         /\ rRecv' = IF IsOk(r) THEN r.v ELSE rRecv
                         /\ UNCHANGED <<rMax, rFmt>>
=============================================================================
