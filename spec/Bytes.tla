------------------------------- MODULE Bytes -------------------------------
(***************************************************************************)
(* Byte-level vocabulary shared by every package module.                   *)
(*                                                                         *)
(* Texts are modelled as sequences of byte values 0..255 (so NUL, invalid  *)
(* UTF-8 and bytes >= 0x80 are first-class).  Formatter results that the    *)
(* specification can construct are also available as TLA+ strings, because *)
(* TLC compares strings by identity (cheap) and can build them with        *)
(* ToString and \o.  TLC offers only Len, \o, SubSeq and equality on        *)
(* strings, hence the Chr / CodeOf tables below.                            *)
(***************************************************************************)
EXTENDS Integers, Sequences, FiniteSets, TLC

Byte == 0..255

IsDigit(b)    == b >= 48 /\ b <= 57
IsUpper(b)    == b >= 65 /\ b <= 90
IsLower(b)    == b >= 97 /\ b <= 122
IsAlpha(b)    == IsUpper(b) \/ IsLower(b)
IsHexLo(b)    == IsDigit(b) \/ (b >= 97 /\ b <= 102)
IsHexUp(b)    == IsDigit(b) \/ (b >= 65 /\ b <= 70)
DigitVal(b)   == b - 48
ToUpperB(b)   == IF IsLower(b) THEN b - 32 ELSE b
ToLowerB(b)   == IF IsUpper(b) THEN b + 32 ELSE b

Hyphen == 45
Dot    == 46
Plus   == 43
Space  == 32
Under  == 95

\* flag test: b is a power of two
Bit(f, b) == (f \div b) % 2 = 1


AllDigits(t) == \A i \in 1..Len(t) : IsDigit(t[i])

(***************************************************************************)
(* Printable ASCII 32..126 <-> one-character strings.                      *)
(***************************************************************************)
Printable ==
  " !\"#$%&'()*+,-./0123456789:;<=>?@ABCDEFGHIJKLMNOPQRSTUVWXYZ[\\]^_`abcdefghijklmnopqrstuvwxyz{|}~"

Chr(b) == SubSeq(Printable, b - 31, b - 31)

CodeOf == [c \in {Chr(b) : b \in 32..126} |-> CHOOSE b \in 32..126 : Chr(b) = c]

IsPrintable(t) == \A i \in 1..Len(t) : t[i] >= 32 /\ t[i] <= 126

\* string -> byte sequence (printable ASCII only)
StrToSeq(s) == [i \in 1..Len(s) |-> CodeOf[SubSeq(s, i, i)]]

\* byte sequence -> string (printable ASCII only)
RECURSIVE SeqToStr(_)
SeqToStr(q) == IF q = <<>> THEN "" ELSE Chr(Head(q)) \o SeqToStr(Tail(q))

(***************************************************************************)
(* Decimal rendering.  Dec(n) is the shortest decimal text of a natural;    *)
(* Pad(n, w) left-pads with zeros to AT LEAST w characters and never        *)
(* truncates (the %0wd contract for non-negative n).                        *)
(***************************************************************************)
Dec(n) == ToString(n)

Zeros(k) == SubSeq("00000000000000000000000000000000", 1, k)

Pad(n, w) == LET s == ToString(n) IN
             IF Len(s) >= w THEN s ELSE Zeros(w - Len(s)) \o s

\* value of a sequence of ASCII digits (caller guarantees it fits 31 bits)
RECURSIVE DigitsVal(_)
DigitsVal(q) == IF q = <<>> THEN 0
                ELSE DigitsVal(SubSeq(q, 1, Len(q) - 1)) * 10 + DigitVal(q[Len(q)])

HexChr(v) == SubSeq("0123456789abcdef", v + 1, v + 1)

\* hexadecimal digit value of a byte, or -1
HexVal(b, allowUpper) ==
  IF IsDigit(b) THEN b - 48
  ELSE IF b >= 97 /\ b <= 102 THEN b - 87
  ELSE IF allowUpper /\ b >= 65 /\ b <= 70 THEN b - 55
  ELSE -1

\* s repeated k times (strings or sequences)
RECURSIVE Rep(_, _)
Rep(s, k) == IF k <= 0 THEN SubSeq(s, 1, 0) ELSE s \o Rep(s, k - 1)

=============================================================================
