------------------------------- MODULE UURef -------------------------------
(***************************************************************************)
(* Reference semantics of package uu (pure operators).                     *)
(*                                                                         *)
(* A 128-bit ID is a sequence of 32 nibbles (0..15), most significant      *)
(* first (nibbles 1..16 = Higher, 17..32 = Lower).  The text form is the   *)
(* lower-case 8-4-4-4-12 layout; the URN form prefixes "urn:uuid:".        *)
(* The parser accepts exactly the case / prefix variants of that text:     *)
(* hexadecimal digits in lower case, and in upper case unless the rule     *)
(* forbids it; the first three prefix bytes "urn" case-insensitively;      *)
(* the URN form unless the rule forbids it.                                *)
(***************************************************************************)
EXTENDS Bytes, Expect

RuleDisableURN == 1
RuleDisableUpper == 2

IsID(id) == Len(id) = 32 /\ \A i \in 1..32 : id[i] \in 0..15

RECURSIVE HexStr(_)
HexStr(q) == IF q = <<>> THEN "" ELSE HexChr(Head(q)) \o HexStr(Tail(q))

FmtID(id) == HexStr(SubSeq(id, 1, 8)) \o "-" \o HexStr(SubSeq(id, 9, 12)) \o "-"
             \o HexStr(SubSeq(id, 13, 16)) \o "-" \o HexStr(SubSeq(id, 17, 20)) \o "-"
             \o HexStr(SubSeq(id, 21, 32))
FmtURN(id) == "urn:uuid:" \o FmtID(id)

\* RFC 4122: version = bits 12..15 of time_hi_and_version = nibble 13;
\* variant = leading one-run of clock_seq_hi = nibble 17
Version(id) == id[13]
Variant(id) == IF id[17] < 8 THEN 0 ELSE IF id[17] < 12 THEN 1 ELSE IF id[17] < 14 THEN 2 ELSE 3

\* positions (1-based) of the hyphens and of the 32 digits in the 36-byte body
HyphenPos == {9, 14, 19, 24}
DigitPos == <<1, 2, 3, 4, 5, 6, 7, 8, 10, 11, 12, 13, 15, 16, 17, 18, 20, 21, 22, 23,
              25, 26, 27, 28, 29, 30, 31, 32, 33, 34, 35, 36>>

\* body: 36 bytes -> nibbles, or <<>> if malformed
BodyNibbles(b, allowUpper) ==
  IF /\ \A p \in HyphenPos : b[p] = Hyphen
     /\ \A i \in 1..32 : HexVal(b[DigitPos[i]], allowUpper) >= 0
  THEN [i \in 1..32 |-> HexVal(b[DigitPos[i]], allowUpper)]
  ELSE <<>>

Colon == 58
UuidColon == <<58, 117, 117, 105, 100, 58>>            \* ":uuid:"
PrefixExact(t) == ToLowerB(t[1]) = 117 /\ ToLowerB(t[2]) = 114 /\ ToLowerB(t[3]) = 110
                  /\ SubSeq(t, 4, 9) = UuidColon
\* the same up to the case of ":uuid:" - the property does not say whether that is accepted
PrefixLoose(t) == [i \in 1..9 |-> ToLowerB(t[i])] = <<117, 114, 110>> \o UuidColon

ParseIDRef(t, rule, max) ==
  LET L == Len(t)
      up == ~Bit(rule, RuleDisableUpper) IN
  IF max # 0 /\ L > max THEN Fail({"ErrInputTooLong"}, {}, {})
  ELSE IF L = 36 THEN
       LET n == BodyNibbles(t, up) IN IF n # <<>> THEN Ok(n) ELSE Fail({}, {}, NotTooLong)
  ELSE IF L = 45 THEN
       LET n == BodyNibbles(SubSeq(t, 10, 45), up) IN
       IF n = <<>> THEN Fail({}, {}, NotTooLong)
       ELSE IF PrefixExact(t) THEN
            (IF Bit(rule, RuleDisableURN) THEN Fail({"ErrURNFormatDisabled"}, {}, NotTooLong) ELSE Ok(n))
       ELSE IF PrefixLoose(t) /\ ~Bit(rule, RuleDisableURN) THEN DontCare
       ELSE Fail({}, {}, NotTooLong)
  ELSE Fail({}, {}, NotTooLong)

=============================================================================
