------------------------------ MODULE Calendar ------------------------------
(***************************************************************************)
(* Proleptic Gregorian calendar with astronomical year numbering (year 0   *)
(* exists and is a leap year), as used by Go's time package.               *)
(*                                                                         *)
(* A date is a record [y, m, d].  Ordinal is defined by summation of year  *)
(* and month lengths (not by a closed formula borrowed from an              *)
(* implementation); MC_Calendar checks that consecutive days have           *)
(* consecutive ordinals, which makes it evidently the day count.            *)
(* TLC integers are 32-bit: Ordinal is usable for |y| <= 5 000 000.         *)
(***************************************************************************)
EXTENDS Integers, Sequences

IsLeap(y) == (y % 4 = 0 /\ y % 100 # 0) \/ y % 400 = 0

DaysIn(y, m) == IF m \in {1, 3, 5, 7, 8, 10, 12} THEN 31
                ELSE IF m \in {4, 6, 9, 11} THEN 30
                ELSE IF IsLeap(y) THEN 29 ELSE 28

ValidYMD(y, m, d) == m >= 1 /\ m <= 12 /\ d >= 1 /\ d <= DaysIn(y, m)

D(y, m, d) == [y |-> y, m |-> m, d |-> d]

ValidDate(x) == ValidYMD(x.y, x.m, x.d)

\* number of leap years among ..., y-2, y-1 up to an additive constant:
\* LeapsBefore(y+1) - LeapsBefore(y) = 1 iff IsLeap(y), for every integer y
\* (\div is floor division).
LeapsBefore(y) == ((y - 1) \div 4) - ((y - 1) \div 100) + ((y - 1) \div 400)

RECURSIVE DaysBeforeMonth(_, _)
DaysBeforeMonth(y, m) == IF m <= 1 THEN 0
                         ELSE DaysBeforeMonth(y, m - 1) + DaysIn(y, m - 1)

DaysInYear(y) == IF IsLeap(y) THEN 366 ELSE 365

\* day number; 0001-01-01 has ordinal 1
Ordinal(y, m, d) == 365 * (y - 1) + LeapsBefore(y) + DaysBeforeMonth(y, m) + d
Ord(x) == Ordinal(x.y, x.m, x.d)

\* lexicographic order on (y, m, d): usable for any 32-bit year
Lt(a, b) == \/ a.y < b.y
            \/ a.y = b.y /\ a.m < b.m
            \/ a.y = b.y /\ a.m = b.m /\ a.d < b.d
Le(a, b) == a = b \/ Lt(a, b)

\* the day after / before (no ordinals involved)
NextDay(x) == IF x.d < DaysIn(x.y, x.m) THEN D(x.y, x.m, x.d + 1)
              ELSE IF x.m < 12 THEN D(x.y, x.m + 1, 1)
              ELSE D(x.y + 1, 1, 1)
PrevDay(x) == IF x.d > 1 THEN D(x.y, x.m, x.d - 1)
              ELSE IF x.m > 1 THEN D(x.y, x.m - 1, DaysIn(x.y, x.m - 1))
              ELSE D(x.y - 1, 12, 31)

\* inverse of Ordinal, declaratively: the year whose Jan 1 .. Dec 31 contains n,
\* searched in a window around the estimate n / 365.2425
YearOf(n) == LET e == (n \div 146097) * 400 + (((n % 146097) * 400) \div 146097) + 1 IN
             CHOOSE y \in (e - 2)..(e + 2) :      \* 146097 days = 400 years; 32-bit safe
                 Ordinal(y, 1, 1) <= n /\ n < Ordinal(y + 1, 1, 1)
Civil(n) == LET y == YearOf(n)
                r == n - Ordinal(y, 1, 1)          \* 0-based day of year
                m == CHOOSE k \in 1..12 :
                       DaysBeforeMonth(y, k) <= r /\ r < DaysBeforeMonth(y, k) + DaysIn(y, k)
            IN D(y, m, r - DaysBeforeMonth(y, m) + 1)

\* time.AddDate / time.Date style normalisation of an arbitrary (y, m, d):
\* months are carried into years first, then days are counted from the first
\* of that month.
Normalize(y, m, d) == LET m0 == m - 1
                          yy == y + (m0 \div 12)
                          mm == (m0 % 12) + 1
                      IN Civil(Ordinal(yy, mm, 1) + d - 1)

AddYMD(x, dy, dm, dd) == Normalize(x.y + dy, x.m + dm, x.d + dd)

=============================================================================
