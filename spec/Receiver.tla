------------------------------ MODULE Receiver ------------------------------
(***************************************************************************)
(* The generic receiver machine behind C17, instantiated for every value   *)
(* type: a receiver variable, an input buffer owned by the caller, and the *)
(* results returned so far.  Parse is any partial function on inputs.      *)
(*   Call     : Unmarshal*(inbuf) - on success the receiver takes the      *)
(*              parsed value, on failure it keeps its value; the input is  *)
(*              never written.                                             *)
(*   Scribble : the caller overwrites its buffer; nothing else changes.    *)
(***************************************************************************)
EXTENDS Integers, Sequences

CONSTANTS Inputs,      \* abstract input contents
          Values,      \* abstract values
          Parse(_)     \* Parse(i) \in Values, or "bad"

VARIABLES recv, inbuf, last     \* last: [ok, value] of the previous call
rcvars == <<recv, inbuf, last>>

RInit == recv \in Values /\ inbuf \in Inputs /\ last = [ok |-> FALSE, v |-> recv]

Call == LET r == Parse(inbuf) IN
        /\ recv' = IF r = "bad" THEN recv ELSE r
        /\ last' = [ok |-> r # "bad", v |-> recv']
        /\ UNCHANGED inbuf

Scribble == \E i \in Inputs : inbuf' = i /\ UNCHANGED <<recv, last>>

RNext == Call \/ Scribble
=============================================================================
