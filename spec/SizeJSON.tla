------------------------------ MODULE SizeJSON ------------------------------
(***************************************************************************)
(* JSON forms of a size (C12), in two layers.                              *)
(*                                                                         *)
(* Ref  : ParseSizeDocRef on an abstract JSON document.  For objects the   *)
(*        outcome is a function of the MULTISET of members (counts and     *)
(*        kinds), so it cannot depend on member order by construction.     *)
(* Impl : ReaderLoop, the library's streaming key loop written from the    *)
(*        code (one step per member), as repaired by the fix commit.  MC_C12*)
(*        checks Impl against Ref for every object of the bounded model;   *)
(*        verdicts about the real code are only ever taken against Ref.    *)
(*                                                                         *)
(* Abstract documents:                                                     *)
(*   [k |-> "num", text |-> bytes]      a JSON number literal              *)
(*   [k |-> "str", val |-> bytes]       a JSON string (decoded content)    *)
(*   [k |-> "obj", members |-> <<[key |-> bytes, v |-> member value]>>]    *)
(*   [k |-> "other"]                    array, true, false, null           *)
(* member values: [k |-> "num", text], [k |-> "str", val], [k |-> "other"] *)
(* (nested containers and literals are "other": they are skipped).         *)
(***************************************************************************)
EXTENDS SizeRef

LowerSeq(t) == [i \in 1..Len(t) |-> ToLowerB(t[i])]
KeyValue == StrToSeq("value")
KeyUnit  == StrToSeq("unit")

IsUIntLiteral(t) == Len(t) >= 1 /\ AllDigits(t) /\ (Len(t) = 1 \/ t[1] # 48)

Count(ms, P(_)) == Cardinality({i \in 1..Len(ms) : P(ms[i])})

ObjectRef(ms, rule, maxKeys) ==
  LET isV(m) == LowerSeq(m.key) = KeyValue
      isU(m) == LowerSeq(m.key) = KeyUnit
      isX(m) == ~isV(m) /\ ~isU(m)
      nv == Count(ms, isV)   nu == Count(ms, isU)   nx == Count(ms, isX)
      vIdx == {i \in 1..Len(ms) : isV(ms[i])}
      uIdx == {i \in 1..Len(ms) : isU(ms[i])}
      badVType == \E i \in vIdx : ms[i].v.k # "num"
      badVNum  == \E i \in vIdx : ms[i].v.k = "num" /\ ~(IsUIntLiteral(ms[i].v.text) /\ FitsU64(OfAscii(ms[i].v.text)))
      badUType == \E i \in uIdx : ms[i].v.k # "str"
      sentinels == (IF nv = 0 THEN {"ErrMissingValueKey"} ELSE {})
             \cup (IF nu = 0 THEN {"ErrMissingUnitKey"} ELSE {})
             \cup (IF nv > 1 THEN {"ErrDuplicatedValueKey"} ELSE {})
             \cup (IF nu > 1 THEN {"ErrDuplicatedUnitKey"} ELSE {})
             \cup (IF badVType \/ badUType THEN {"ErrInvalidType"} ELSE {})
             \cup (IF maxKeys # 0 /\ Len(ms) > maxKeys THEN {"ErrObjectTooBig"} ELSE {})
             \cup (IF nx > 0 /\ Bit(rule, RuleDisallowUnknownKeys) THEN {"ErrUnexpectedKey"} ELSE {})
  IN
  IF sentinels # {} THEN
       \* a negative / fractional / overflowing value is reported without a sentinel
       (IF badVNum THEN FailPlain ELSE Fail({}, sentinels, {}))
  ELSE IF badVNum THEN FailPlain
  ELSE LET vi == CHOOSE i \in vIdx : TRUE   ui == CHOOSE i \in uIdx : TRUE IN
       NewSizeRef("int", OfAscii(ms[vi].v.text), ms[ui].v.val)

\* wf: the input is exactly one well-formed JSON value (no truncation, no trailing content)
ParseSizeDocRef(doc, wf, rule, maxKeys) ==
  IF ~wf THEN FailPlain
  ELSE IF doc.k = "num" THEN
       (IF IsUIntLiteral(doc.text) THEN (IF FitsU64(OfAscii(doc.text)) THEN Ok(BNorm(OfAscii(doc.text))) ELSE FailPlain)
        ELSE IF doc.text = <<45, 48>> THEN DontCare                  \* "-0"
        ELSE FailPlain)
  ELSE IF doc.k = "str" THEN
       (IF ~Bit(rule, RuleEnableJSONStringForm) THEN Fail({"ErrStringFormDisabled"}, {}, {})
        ELSE LET r == ParseSizeTextRef(doc.val, 0) IN
             \* the property is silent on RuleDisableUnit combined with JSON forms
             IF Bit(rule, RuleDisableUnit) /\ IsOk(r) /\ ~IsOk(ParseSizeTextRef(doc.val, RuleDisableUnit)) THEN DontCare ELSE r)
  ELSE IF doc.k = "obj" THEN
       (IF ~Bit(rule, RuleEnableJSONObjectForm) THEN Fail({"ErrObjectFormDisabled"}, {}, {})
        ELSE LET r == ObjectRef(doc.members, rule, maxKeys) IN
             IF Bit(rule, RuleDisableUnit) /\ IsOk(r) THEN DontCare ELSE r)
  ELSE FailPlain

(***************************************************************************)
(* Impl layer: the key loop of unmarshalJSONObject (after the fix).        *)
(* State: i = members consumed, value / unit = decoded so far or "none".   *)
(* Returns "ok" with the pair, or the sentinel / "plain" it stops with.    *)
(***************************************************************************)
\* value / unit: <<>> = not seen yet, <<x>> = decoded x.  Result: [k |-> "pair", value, unit] or [k |-> "err", e]
Err(e) == [k |-> "err", e |-> e]
RECURSIVE Loop(_, _, _, _, _, _)
Loop(ms, i, value, unit, rule, maxKeys) ==
  IF i > Len(ms) THEN
       (IF value = <<>> THEN Err("ErrMissingValueKey") ELSE IF unit = <<>> THEN Err("ErrMissingUnitKey")
        ELSE [k |-> "pair", value |-> value[1], unit |-> unit[1]])
  ELSE IF maxKeys # 0 /\ i > maxKeys THEN Err("ErrObjectTooBig")
  ELSE LET m == ms[i]  key == LowerSeq(m.key) IN
    IF key = KeyValue THEN
         (IF value # <<>> THEN Err("ErrDuplicatedValueKey")
          ELSE IF m.v.k # "num" THEN Err("ErrInvalidType")
          ELSE IF ~(IsUIntLiteral(m.v.text) /\ FitsU64(OfAscii(m.v.text))) THEN Err("plain")
          ELSE Loop(ms, i + 1, <<OfAscii(m.v.text)>>, unit, rule, maxKeys))
    ELSE IF key = KeyUnit THEN
         (IF unit # <<>> THEN Err("ErrDuplicatedUnitKey")
          ELSE IF m.v.k # "str" THEN Err("ErrInvalidType")
          ELSE Loop(ms, i + 1, value, <<m.v.val>>, rule, maxKeys))
    ELSE IF Bit(rule, RuleDisallowUnknownKeys) THEN Err("ErrUnexpectedKey")
    ELSE Loop(ms, i + 1, value, unit, rule, maxKeys)

ReaderLoop(ms, rule, maxKeys) == Loop(ms, 1, <<>>, <<>>, rule, maxKeys)

\* Impl conforms to Ref
LoopConforms(ms, rule, maxKeys) ==
  LET r == ObjectRef(ms, rule, maxKeys)
      x == ReaderLoop(ms, rule, maxKeys) IN
  IF IsOk(r) THEN x.k = "pair" /\ NewSizeRef("int", x.value, x.unit) = r
  ELSE IF r.any = {} THEN
       \* refused without a sentinel: a bad number in the value member, or the arithmetic refuses the pair
       (x.k = "err") \/ (x.k = "pair" /\ IsFail(NewSizeRef("int", x.value, x.unit)))
  ELSE x.k = "err" /\ x.e \in r.any
=============================================================================
