------------------------------ MODULE Graph_C03 ------------------------------
(***************************************************************************)
(* C03, complete function graph: TLC enumerates every string over          *)
(* {0,1,9,a,Z,-,.,+,v} up to length MaxLen and compares, for the five      *)
(* entry points (Parse, ParseVersion, ParseTag, DefaultParser with and     *)
(* without RuleDisableTag), the recorded acceptance mask and value with    *)
(* the grammar of SemRef.  Recorded anomalies ([]byte or UnmarshalText     *)
(* differing from string, differing values, formatted result not equal to  *)
(* the input, untyped / non-zero rejection, panic) must be empty.          *)
(***************************************************************************)
EXTENDS SemRef, Json, IOUtils

G == JsonDeserialize(IOEnv.GRAPH_FILE)
MaxLen == atoi(IOEnv.GRAPH_MAXLEN)
\* accepted: [text, mask, [major, minor, patch, pre, build]]
AccTriples == {<<G.accepted[i][1], G.accepted[i][2], G.accepted[i][3]>> : i \in 1..Len(G.accepted)}
AccKeys    == {G.accepted[i][1] : i \in 1..Len(G.accepted)}
Anom       == {G.anomalies[i][1] : i \in 1..Len(G.anomalies)}

Alphabet == {48, 49, 57, 97, 90, 45, 46, 43, 118}
VARIABLE s
Init == s = <<>>
Next == Len(s) < MaxLen /\ \E c \in Alphabet : s' = Append(s, c)
Spec == Init /\ [][Next]_s

B2I(b) == IF b THEN 1 ELSE 0
Agree ==
  LET both == ParseSemRef(s, {FormVersion, FormTag}, 1024)
      isTag == Len(s) > 0 /\ s[1] = cv
      \* Parse 1, ParseVersion 2, ParseTag 4, DefaultParser(0) 8, DefaultParser(RuleDisableTag) 16
      mask == IF ~IsOk(both) THEN 0
              ELSE 1 + 8 + (IF isTag THEN 4 ELSE 2 + 16)
  IN /\ s \notin Anom
     /\ IF mask = 0 THEN s \notin AccKeys
        ELSE <<s, mask, <<both.v.major, both.v.minor, both.v.patch, both.v.pre, both.v.build>> >> \in AccTriples
Conform == Agree \/ PrintT(<<"GRAPH-MISMATCH", s>>)
=============================================================================
