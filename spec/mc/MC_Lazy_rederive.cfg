SPECIFICATION LSpec
CHECK_DEADLOCK FALSE
CONSTANTS
  Configs <- MCConfigs
  Args <- MCArgs
  Mode = "rederive"
INVARIANT ConfigInForce
