------------------------------ MODULE Graph_C09 ------------------------------
(***************************************************************************)
(* C09, complete function graph: TLC itself enumerates every string over   *)
(* {0,1,2,3,9,-} up to length MaxLen plus every extension of "20" up to     *)
(* length 10, evaluates the declarative parser of DateRef on it and looks   *)
(* the point up in the graph recorded from the real date.DefaultParser      *)
(* (no limit, rule 0).  A point missing from "accepted" was cleanly         *)
(* rejected (typed error, zero result); anything else is in "anomalies",    *)
(* which must be empty.  Disagreements are printed (GRAPH-MISMATCH) and     *)
(* re-executed by the orchestrator; the orchestrator also requires TLC's    *)
(* distinct-state count to equal the driver's total (completeness).         *)
(* (An anomaly that the specification accepts shows up as a missing pair.) *)
(***************************************************************************)
EXTENDS DateRef, Json, IOUtils

G == JsonDeserialize(IOEnv.GRAPH_FILE)
MaxLen == atoi(IOEnv.GRAPH_MAXLEN)

\* accepted: [[text, value], ...]   anomalies: [[text], ...]
AccPairs == {<<G.accepted[i][1], G.accepted[i][2]>> : i \in 1..Len(G.accepted)}
AccKeys  == {G.accepted[i][1] : i \in 1..Len(G.accepted)}
Anom     == {G.anomalies[i][1] : i \in 1..Len(G.anomalies)}

Alphabet == {48, 49, 50, 51, 57, 45}

VARIABLE s
Init == s = <<>>
Extendable == Len(s) < MaxLen \/ (Len(s) >= 2 /\ Len(s) < 10 /\ s[1] = 50 /\ s[2] = 48)
Next == Extendable /\ \E c \in Alphabet : s' = Append(s, c)
Spec == Init /\ [][Next]_s

\* the implementation's graph against the specification
Agree == LET r == ParseDateRef(s, 0, 0) IN
         IF IsOk(r) THEN <<s, <<r.v.y, r.v.m, r.v.d>>>> \in AccPairs
         ELSE s \notin AccKeys /\ s \notin Anom
Conform == Agree \/ PrintT(<<"GRAPH-MISMATCH", s>>)
=============================================================================
