------------------------------- MODULE MC_Conc -------------------------------
(* 3 goroutines x 2 calls over 3 arguments, every interleaving.              *)
EXTENDS Conc
MCProcs == {1, 2, 3}
MCArgs == {"a", "b", "c"}
=============================================================================
