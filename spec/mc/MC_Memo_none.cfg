SPECIFICATION MSpec
CHECK_DEADLOCK FALSE
CONSTANTS
  Texts <- MCTexts
  Mode = "none"
INVARIANT ResultIsOfArgument
