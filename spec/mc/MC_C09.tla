------------------------------- MODULE MC_C09 -------------------------------
(***************************************************************************)
(* C09 on the specification alone, over every string on {0,1,2,3,9,-} up   *)
(* to length MaxLen plus every extension of "20" up to length 10: the      *)
(* positional (DateShape) and the existential (DateLangEx) definition of   *)
(* the language agree; accepted texts name real days and reproduce         *)
(* canonical texts when formatted; the rule gate and the limit gate behave *)
(* as the property states.                                                 *)
(***************************************************************************)
EXTENDS DateRef, IOUtils

MaxLen == atoi(IOEnv.GRAPH_MAXLEN)
Alphabet == {48, 49, 50, 51, 57, 45}

VARIABLE s
Init == s = <<>>
Extendable == Len(s) < MaxLen \/ (Len(s) >= 2 /\ Len(s) < 10 /\ s[1] = 50 /\ s[2] = 48)
Next == Extendable /\ \E c \in Alphabet : s' = Append(s, c)
Spec == Init /\ [][Next]_s

Laws ==
  LET r  == ParseDateRef(s, 0, 0)
      sh == DateShape(s)
      q  == ParseDateRef(s, 1, 0)
  IN
  /\ DateLangEx(s) <=> sh.k # "none"
  /\ IsOk(r) => /\ ValidDate(r.v)
                /\ (Len(sh.y) = Len(ToString(r.v.y)) \/ (Len(sh.y) = 4 /\ r.v.y < 1000))
                     => StrToSeq(FmtDate(r.v, sh.k = "basic")) = s
  /\ (IsOk(r) /\ sh.k = "basic") => (IsFail(q) /\ q.req = {"ErrBasicFormatDisabled"})
  /\ (IsOk(r) /\ sh.k = "ext") => q = r
  /\ IsFail(r) => IsFail(q)
  /\ \A max \in {8, 10} :
       LET z == ParseDateRef(s, 0, max) IN
       IF Len(s) > max THEN IsFail(z) /\ z.req = {"ErrInputTooLong"} ELSE z = r
=============================================================================
