------------------------------ MODULE MBT_C20 ------------------------------
(***************************************************************************)
(* C20, spec -> code: TLC enumerates the test-case programs and writes     *)
(* them as vectors; the harness instantiates each one as a scripted type   *)
(* plus a case list and runs the real helper against a recording TestingT. *)
(* What the helper did is then judged by the trace specification           *)
(* (TraceHelper) against TestHelper!CaseFails.                             *)
(*   - every single case (3 x 4 x 4 x 5 x 11, minus the uninstantiable)    *)
(*   - every ordered pair of cases over a reduced alphabet                 *)
(*   - lists mixing directions, empty list, types lacking the interface    *)
(* each for both directions, three encodings, value / pointer receivers.   *)
(* The same module checks laws of CaseFails on the enumerated cases.       *)
(***************************************************************************)
EXTENDS TestHelper, Json, IOUtils, TLC, SequencesExt

Case(c, b, a, beh, exp) == [c |-> c, b |-> b, a |-> a, beh |-> beh, exp |-> exp]
Singles == {x \in {Case(c, b, a, beh, exp) : c \in Constraints, b \in Hooks, a \in Hooks, beh \in Behaviours, exp \in Expectations} : Instantiable(x)}
Quick == IOEnv.MBT_TIER = "quick"
Small == IF Quick
         THEN {Case(c, b, a, beh, exp) : c \in Constraints, b \in {"nil", "err"}, a \in {"nil", "panic"},
                                         beh \in {"right", "wrong", "error"}, exp \in {"none", "any", "match_no"}}
         ELSE {x \in {Case(c, b, a, beh, exp) : c \in Constraints, b \in {"nil", "err", "panic"}, a \in {"nil", "err"},
                                         beh \in Behaviours, exp \in {"none", "any", "eq", "prefix_no", "match_no"}} : Instantiable(x)}
Pairs == {<<x, y>> : x \in Small, y \in Small}

Dirs == {"marshal", "unmarshal"}
Encs == {"Text", "Binary", "JSON"}
Recvs == {"value", "pointer"}

Program(dir, enc, recv, iface, cases) == [dir |-> dir, enc |-> enc, recv |-> recv, iface |-> iface, cases |-> cases]

SingleProgs == {Program(d, e, r, TRUE, <<x>>) : d \in Dirs, e \in Encs, r \in Recvs, x \in Singles}
PairProgs == {Program(d, e, "value", TRUE, <<p[1], p[2]>>) : d \in Dirs, e \in {"Text"}, p \in Pairs}
\* pairs in the other two encodings over a tiny alphabet (the three helper files are separate code)
Tiny == {Case(c, "nil", "nil", beh, exp) : c \in {"both", "marshal"}, beh \in {"right", "wrong", "error"}, exp \in {"none", "any", "eq"}}
        \cup {Case("both", "err", "nil", "right", "none"), Case("unmarshal", "nil", "nil", "error", "any"), Case("both", "nil", "panic", "right", "none")}
TinyPairs == {Program(d, e, r, TRUE, <<x, y>>) : d \in Dirs, e \in {"Binary", "JSON"}, r \in {"value"}, x \in Tiny, y \in Tiny}
\* a VALUE type whose Marshal* methods have pointer receivers does not implement the marshaler
\* interface: recv "ptrmeth" (marshal direction only), so the specification sees iface = FALSE
PtrMeth == {Program("marshal", e, "ptrmeth", FALSE, <<x>>) : e \in Encs, x \in Small}
\* T is an interface type and the values are implementations of it (two of them, alternating, in
\* the marshal direction): the helpers must go by the dynamic type of each value, so the verdict is
\* that of an implementing type - also for the empty list, where there is no value to look at
IfaceT == {Program(d, e, "ifacetype", TRUE, <<x>>) : d \in Dirs, e \in Encs, x \in Small}
          \cup {Program(d, e, "ifacetype", TRUE, <<x, y>>) : d \in Dirs, e \in Encs, x \in Tiny, y \in Tiny}
          \cup {Program(d, e, "ifacetype", TRUE, <<>>) : d \in Dirs, e \in Encs}
\* a Before hook that completes the case it receives (the table holds placeholder data, the hook puts
\* in the real data): for the verdict that is a hook that succeeds, HookFails("set") = FALSE
SetHook == {p \in {Program(d, e, r, TRUE, <<Case(c, "set", "nil", beh, exp)>>) : d \in Dirs, e \in Encs, r \in Recvs, c \in Constraints,
                       beh \in Behaviours, exp \in {"none", "any", "eq"}} : Instantiable(p.cases[1])}
           \cup {Program(d, e, "value", TRUE, <<Case("both", "set", "nil", "right", "none"), Case("both", "nil", "nil", beh, "none")>>) : d \in Dirs, e \in Encs, beh \in {"right", "wrong"}}
Other == SetHook \cup IfaceT \cup {Program(d, e, r, FALSE, <<x>>) : d \in Dirs, e \in Encs, r \in Recvs, x \in Small} \cup TinyPairs \cup PtrMeth
         \cup {Program(d, e, r, i, <<>>) : d \in Dirs, e \in Encs, r \in Recvs, i \in BOOLEAN}
         \cup {Program(d, e, "value", TRUE, <<x, y, z>>) : d \in Dirs, e \in {"Text"},
                 x \in {Case("marshal", "nil", "nil", "error", "none"), Case("unmarshal", "nil", "nil", "error", "none")},
                 y \in {Case("both", "nil", "nil", "right", "none"), Case("both", "ok", "ok", "errdata", "any")},
                 z \in {Case("unmarshal", "panic", "nil", "right", "none"), Case("marshal", "nil", "err", "right", "none")}}

Vectors == SetToSeq(SingleProgs) \o SetToSeq(PairProgs) \o SetToSeq(Other)

ASSUME ndJsonSerialize(IOEnv.VEC_FILE, Vectors)
ASSUME PrintT(<<"MBT-VECTORS", Len(Vectors), Cardinality(SingleProgs), Cardinality(PairProgs), Cardinality(Other)>>)

\* laws of the reference on every single case
VARIABLE x
Init == x \in Singles
Next == UNCHANGED x
Spec == Init /\ [][Next]_x
Laws ==
  \A dir \in Dirs :
    /\ ~Applicable(dir, x) => ~CaseFails(dir, x)
    /\ (Applicable(dir, x) /\ (HookFails(x.b) \/ HookFails(x.a))) => CaseFails(dir, x)
    /\ (Applicable(dir, x) /\ x.b \in {"nil", "ok"} /\ x.a \in {"nil", "ok"} /\ x.beh = "right" /\ x.exp = "none") => ~CaseFails(dir, x)
    /\ (Applicable(dir, x) /\ x.beh \in {"right", "wrong"} /\ x.exp # "none") => CaseFails(dir, x)
    /\ (CaseFailsLib(dir, x) # CaseFails(dir, x)) => (x.exp = "match_no" /\ HasError(x))
    /\ x.c = "both" => (CaseFails("marshal", x) = CaseFails("unmarshal", x))
=============================================================================
