------------------------------- MODULE MC_Memo -------------------------------
(* Three buffer contents (two accepted, one refused), every sequence of up   *)
(* to 4 calls with refills in between, for each of the three modes.          *)
EXTENDS Memo
MCTexts == {"a", "b", "bad"}
=============================================================================
