SPECIFICATION Spec
CHECK_DEADLOCK FALSE
INVARIANT Strict
INVARIANT Lossless
