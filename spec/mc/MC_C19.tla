------------------------------- MODULE MC_C19 -------------------------------
(* 3 goroutines x 2 calls, every interleaving, with the mutex protocol.     *)
EXTENDS UURandom
MCG == {1, 2, 3}
=============================================================================
