------------------------------- MODULE MC_C12 -------------------------------
(***************************************************************************)
(* C12 on the specification alone: every object of up to MaxMembers        *)
(* members drawn from an alphabet of member kinds (value: ok / second ok / *)
(* negative / string / nested; unit: ok / unknown / non-string; key-case   *)
(* variants; unknown scalar / nested), in EVERY order (objects are         *)
(* sequences), x 8 rule subsets x MaxObjectKeys in {0,1,2,3,16}.           *)
(*  - Ref (ObjectRef) does not depend on member order: the outcome of any  *)
(*    extension by one member equals the outcome of the extension at the   *)
(*    front (adjacent transpositions generate all permutations).           *)
(*  - Impl (ReaderLoop, the library's key loop) conforms to Ref.           *)
(*  - 0 disables the maximum; exactly maxKeys members are accepted.        *)
(***************************************************************************)
EXTENDS SizeJSON, IOUtils

MaxMembers == atoi(IOEnv.MC_MEMBERS)

M(k, v) == [key |-> StrToSeq(k), v |-> v]
Num(s) == [k |-> "num", text |-> StrToSeq(s)]
Str(s) == [k |-> "str", val |-> StrToSeq(s)]
Other == [k |-> "other"]
Kinds == { M("value", Num("3")), M("VALUE", Num("18446744073709551615")), M("value", Num("-1")), M("value", Str("3")), M("Value", Other),
           M("unit", Str("KiB")), M("UNIT", Str("XB")), M("unit", Num("1")), M("Unit", Str("")),
           M("x", Num("1")), M("n", Other) }
Rules == {4, 5, 6, 7, 12, 13, 14, 15}
Keys == {0, 1, 2, 3, 16}

VARIABLE ms
Init == ms = <<>>
Next == Len(ms) < MaxMembers /\ \E m \in Kinds : ms' = Append(ms, m)
Spec == Init /\ [][Next]_ms

Swap(s, i) == [s EXCEPT ![i] = s[i + 1], ![i + 1] = s[i]]

OrderIndependent ==
  \A r \in Rules, k \in Keys :
    \A i \in 1..(Len(ms) - 1) : ObjectRef(Swap(ms, i), r, k) = ObjectRef(ms, r, k)

ImplRefinesRef == \A r \in Rules, k \in Keys : LoopConforms(ms, r, k)

LimitRule ==
  \A r \in Rules :
    /\ ObjectRef(ms, r, 0) = ObjectRef(ms, r, 16)                               \* 0 = no maximum (16 > MaxMembers)
    /\ \A k \in {1, 2, 3} :
         /\ Len(ms) <= k => ObjectRef(ms, r, k) = ObjectRef(ms, r, 0)          \* up to the maximum: no effect
         /\ Len(ms) > k => LET x == ObjectRef(ms, r, k) IN IsFail(x) /\ (x.any = {} \/ "ErrObjectTooBig" \in x.any)

DocGates ==
  LET doc == [k |-> "obj", members |-> ms] IN
  /\ \A r \in {2, 3, 10, 11} : ParseSizeDocRef(doc, TRUE, r, 16) = Fail({"ErrObjectFormDisabled"}, {}, {})
  /\ \A r \in Rules : IsFail(ParseSizeDocRef(doc, FALSE, r, 16))
=============================================================================
