------------------------------- MODULE MC_C11 -------------------------------
(***************************************************************************)
(* C11 on the specification alone.  The input under test is a byte string  *)
(* [version, 4 year bytes, month byte, day byte] cut or padded to a length. *)
(* Sweep: all 65 536 (month, day) bytes x 6 years with version 1, length 7, *)
(* plus a reduced (month, day) grid x 5 versions x 8 lengths.              *)
(* Checked: decoding succeeds exactly for version 1, length 7 and a real   *)
(* calendar day; a successful decode re-encodes to the same bytes; every   *)
(* date's encoding has 7 bytes, version 1 and decodes to the date; wrong   *)
(* length / version give the documented sentinels.                         *)
(***************************************************************************)
EXTENDS DateRef

Years == {-999999999, -1, 0, 1900, 2024, 999999999}
Small == {0, 1, 2, 12, 13, 28, 29, 30, 31, 32, 255}
Vers  == {0, 1, 2, 128, 255}
Lens  == {0, 1, 6, 7, 8, 16}

VARIABLES y, mb, db, ver, len
vars == <<y, mb, db, ver, len>>

Init == /\ y \in Years
        /\ \/ mb \in 0..255 /\ db \in 0..255 /\ ver = 1 /\ len = 7
           \/ mb \in Small /\ db \in Small /\ ver \in Vers /\ len \in Lens
Next == UNCHANGED vars
Spec == Init /\ [][Next]_vars

Full == <<ver>> \o YearBytes(y) \o <<mb, db>> \o <<9, 9, 9, 9, 9, 9, 9, 9, 9>>
In == SubSeq(Full, 1, len)

Strict ==
  LET r == BinDecodeRef(In) IN
  /\ IsOk(r) <=> (ver = 1 /\ len = 7 /\ ValidYMD(y, mb, db))
  /\ IsOk(r) => (r.v = D(y, mb, db) /\ BinEncode(r.v) = In)
  /\ (len = 0) => (IsFail(r) /\ r.req = {"ErrInvalidLength"})
  /\ (len = 7 /\ ver # 1) => (IsFail(r) /\ r.req = {"ErrUnsupportedVersion"})
  /\ (len \notin {0, 7} /\ ver = 1) => (IsFail(r) /\ r.req = {"ErrInvalidLength"})
  /\ (len \notin {0, 7} /\ ver # 1) => (IsFail(r) /\ r.any = {"ErrInvalidLength", "ErrUnsupportedVersion"})
  /\ (ver = 1 /\ len = 7 /\ ~ValidYMD(y, mb, db)) => r.k = "failorvalid"

Lossless ==
  ValidYMD(y, mb, db) =>
    LET e == BinEncode(D(y, mb, db)) IN
    /\ Len(e) = 7 /\ e[1] = 1 /\ \A i \in 1..7 : e[i] \in 0..255
    /\ BytesYear(SubSeq(e, 2, 5)) = y
    /\ BinDecodeRef(e) = Ok(D(y, mb, db))
=============================================================================
