------------------------------- MODULE MC_C17 -------------------------------
(***************************************************************************)
(* C17 on the generic receiver machine: three parsable and three           *)
(* unparsable abstract inputs, all histories of calls and scribbles.       *)
(* Action properties: a failing call leaves the receiver exactly as it was *)
(* (including a value decoded by an earlier call); a call never writes the *)
(* input; scribbling the input changes neither the receiver nor the last   *)
(* result.                                                                 *)
(***************************************************************************)
EXTENDS Receiver

MCInputs == {"g1", "g2", "g3", "b1", "b2", "b3"}
MCValues == {"v0", "v1", "v2", "v3"}
MCParse(i) == CASE i = "g1" -> "v1" [] i = "g2" -> "v2" [] i = "g3" -> "v3" [] OTHER -> "bad"

Spec == RInit /\ [][RNext]_rcvars

FailKeeps     == [][(MCParse(inbuf) = "bad" /\ inbuf' = inbuf /\ last' # last) => recv' = recv]_rcvars
CallKeepsIn   == [][last' # last => inbuf' = inbuf]_rcvars
ScribbleKeeps == [][inbuf' # inbuf => (recv' = recv /\ last' = last)]_rcvars
TypeOK == recv \in MCValues /\ inbuf \in MCInputs /\ (last.ok => last.v = recv)
=============================================================================
