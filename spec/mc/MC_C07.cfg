SPECIFICATION Spec
CHECK_DEADLOCK FALSE
INVARIANT Order
INVARIANT Inverse
INVARIANT Arithmetic
