SPECIFICATION Spec
CHECK_DEADLOCK FALSE
INVARIANT Order
INVARIANT InverseLaw
INVARIANT Arithmetic
