------------------------------- MODULE MC_Lazy -------------------------------
(* Three configurations, two arguments, every sequence of up to 3 calls with *)
(* configuration changes in between, for each of the three modes.            *)
EXTENDS Lazy
MCConfigs == {"default", "limit1", "nolimit"}
MCArgs == {"x", "y"}
=============================================================================
