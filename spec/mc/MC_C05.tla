------------------------------- MODULE MC_C05 -------------------------------
(***************************************************************************)
(* C05 on the specification alone.  For 3 background IDs: every nibble     *)
(* value at every position round-trips through the text in lower and upper *)
(* case, with and without the URN prefix; and for every single-position    *)
(* substitution from a 26-byte alphabet (the boundaries of every accepted   *)
(* class) at each of the 36 / 45 positions x 4 rule sets, the positional   *)
(* parser agrees with the declarative reading "the text is a case / prefix *)
(* variant of FmtID(id) for some id".                                      *)
(***************************************************************************)
EXTENDS UURef

Zero == [i \in 1..32 |-> 0]
Ones == [i \in 1..32 |-> 15]
Mix  == [i \in 1..32 |-> (i * 7 + 3) % 16]
BGs == <<Zero, Ones, Mix>>

\* / 0 9 : @ A F G ` a f g - NUL 0x80 0xFF space u U r n i d : x
Alpha == {47, 48, 57, 58, 64, 65, 70, 71, 96, 97, 102, 103, 45, 0, 128, 255, 32, 117, 85, 114, 110, 105, 100, 120, 82, 78}

VARIABLES bg, pos, val, form
vars == <<bg, pos, val, form>>
\* form: 0 plain lower, 1 plain upper, 2 urn lower, 3 URN upper
Init == bg \in 1..3 /\ form \in 0..3 /\ pos = 1 /\ val \in Alpha
Next == pos < (IF form < 2 THEN 36 ELSE 45) /\ pos' = pos + 1 /\ UNCHANGED <<bg, val, form>>
Spec == Init /\ [][Next]_vars

UpSeq(t) == [i \in 1..Len(t) |-> ToUpperB(t[i])]
Base == LET p == StrToSeq(FmtID(BGs[bg])) IN
        CASE form = 0 -> p [] form = 1 -> UpSeq(p)
          [] form = 2 -> StrToSeq("urn:uuid:") \o p
          [] form = 3 -> StrToSeq("URN:uuid:") \o UpSeq(p)
Text == [Base EXCEPT ![pos] = val]

\* declarative reading: lower-casing the digits (when upper case is allowed) and the "urn"
\* letters gives exactly the canonical text of some id
Canon(t, rule) ==
  LET L == Len(t)
      body == IF L = 45 THEN SubSeq(t, 10, 45) ELSE t
      low == [i \in 1..Len(body) |-> IF Bit(rule, RuleDisableUpper) \/ ~(body[i] >= 65 /\ body[i] <= 70) THEN body[i] ELSE body[i] + 32]
  IN /\ L \in {36, 45}
     /\ L = 45 => (~Bit(rule, RuleDisableURN) /\ PrefixExact(t))
     /\ \E n \in {BodyNibbles(low, FALSE)} : n # <<>> /\ StrToSeq(FmtID(n)) = low

Laws ==
  \A rule \in 0..3 :
    LET r == ParseIDRef(Text, rule, 45) IN
    /\ IsOk(r) <=> Canon(Text, rule)
    /\ IsOk(r) => (IsID(r.v) /\ ParseIDRef(StrToSeq(FmtID(r.v)), rule, 45) = Ok(r.v)
                   /\ (~Bit(rule, RuleDisableURN) => ParseIDRef(StrToSeq(FmtURN(r.v)), rule, 45) = Ok(r.v)))
    /\ (Text = Base /\ ~(form \in {1, 3} /\ Bit(rule, RuleDisableUpper)) /\ ~(form >= 2 /\ Bit(rule, RuleDisableURN)))
          => r = Ok(BGs[bg])
    /\ ParseIDRef(Text, rule, 0) = r
    /\ Len(Text) > 36 => ParseIDRef(Text, rule, 36) = Fail({"ErrInputTooLong"}, {}, {})

Accessors == /\ Version(BGs[bg]) = BGs[bg][13]
             /\ Variant(Ones) = 3 /\ Variant(Zero) = 0
=============================================================================
