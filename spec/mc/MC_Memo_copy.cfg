SPECIFICATION MSpec
CHECK_DEADLOCK FALSE
CONSTANTS
  Texts <- MCTexts
  Mode = "copy"
INVARIANT ResultIsOfArgument
