SPECIFICATION Spec
CONSTANTS
  Inputs <- MCInputs
  Values <- MCValues
  Parse <- MCParse
CHECK_DEADLOCK FALSE
INVARIANT TypeOK
PROPERTY FailKeeps
PROPERTY CallKeepsIn
PROPERTY ScribbleKeeps
