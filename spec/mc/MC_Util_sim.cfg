SPECIFICATION UtilSpec
CHECK_DEADLOCK FALSE
INVARIANT TypeOK
INVARIANT Emit
