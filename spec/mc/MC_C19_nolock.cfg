SPECIFICATION RSpec
CHECK_DEADLOCK FALSE
CONSTANTS
  G <- MCG
  Calls = 1
  Locked = FALSE
INVARIANT Consecutive
