SPECIFICATION RSpec
CHECK_DEADLOCK FALSE
CONSTANTS
  G <- MCG
  Calls = 2
  Locked = TRUE
INVARIANT MutualExclusion
INVARIANT Consecutive
INVARIANT NoSharing
PROPERTY AllDone
