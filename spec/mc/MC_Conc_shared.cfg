SPECIFICATION CSpec
CHECK_DEADLOCK FALSE
CONSTANTS
  Procs <- MCProcs
  Args <- MCArgs
  Calls = 2
  Shared = TRUE
INVARIANT PerGoroutineSequential
