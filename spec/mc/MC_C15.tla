------------------------------- MODULE MC_C15 -------------------------------
(***************************************************************************)
(* C15 on the specification: the filter part of the Date state machine     *)
(* (caller variables, build, probe) explored exhaustively over a window of *)
(* dates that crosses a leap day, a month end and a year end.              *)
(* Invariants: building fails exactly when both bounds are given and       *)
(* from > to; a filter contains p iff p's ordinal lies in the inclusive    *)
(* interval of the bounds AT BUILD TIME (hist), whatever the caller's      *)
(* variables hold now; the library's five filter shapes (Impl) compute the *)
(* same predicate.                                                         *)
(***************************************************************************)
EXTENDS Date

Window == {D(2023, 12, 30), D(2023, 12, 31), D(2024, 1, 1), D(2024, 2, 28), D(2024, 2, 29), D(2024, 3, 1)}
Opt == Window \cup {NoDate}

VARIABLE hist        \* history variable: bounds given to the last successful build
mcvars == <<dvars, hist>>

Init == DateInit /\ hist = [from |-> NoDate, to |-> NoDate]
Next == \/ \E f \in Opt, t \in Opt : DateSetVars(f, t) /\ UNCHANGED hist
        \/ /\ Len(dFilt) = 0 /\ DateFilterBuild
           /\ hist' = IF IsOk(dRet') THEN dVars ELSE hist
        \/ \E p \in Window : DateFilterContains(1, p) /\ UNCHANGED hist
Spec == Init /\ [][Next]_mcvars

\* what the code's five shapes compute (filterNo, filterDate, filterFrom, filterTo, filterFromTo)
ImplContains(f, p) ==
  IF IsNone(f.from) THEN (IF IsNone(f.to) THEN TRUE ELSE (f.to = p \/ After(f.to, p)))
  ELSE IF IsNone(f.to) THEN (f.from = p \/ Before(f.from, p))
  ELSE IF f.from = f.to THEN f.from = p
  ELSE (f.from = p \/ f.to = p \/ (Before(f.from, p) /\ After(f.to, p)))

FiltersKeepBounds == Len(dFilt) = 1 => dFilt[1] = hist

Interval ==
  Len(dFilt) = 1 =>
    \A p \in Window :
      LET want == /\ (IsNone(hist.from) \/ Ord(hist.from) <= Ord(p))
                  /\ (IsNone(hist.to) \/ Ord(p) <= Ord(hist.to))
      IN FContains(dFilt[1], p) = want /\ ImplContains(dFilt[1], p) = want

FailRule == \A f \in Opt, t \in Opt :
              IsFail(FilterBuildRef(f, t)) <=> (~IsNone(f) /\ ~IsNone(t) /\ Ord(f) > Ord(t))
=============================================================================
