------------------------------- MODULE MC_C02 -------------------------------
(***************************************************************************)
(* C02 on the specification alone: for every n in 0..NMax and every one of *)
(* the 128 flag subsets, the numeral built by rule parses back to n under  *)
(* the declarative parser (so it is in the language), has n div 1000       *)
(* leading M, every digit group is the subtractive form unless its long    *)
(* flag is set, the lower-case flag changes only the case, and zero is the *)
(* empty text.                                                             *)
(***************************************************************************)
EXTENDS RomanRef, IOUtils

NMax == atoi(IOEnv.MC_NMAX)

VARIABLES n, f
vars == <<n, f>>
\* the sweep is a tree rooted at (0,0) so that TLC's workers share it:
\* (n,0) -> (n+1,0) and (n,0) -> (n,1) -> (n,2) -> ... -> (n,127)
Init == n = 0 /\ f = 0
Next == \/ f = 0 /\ n < NMax /\ n' = n + 1 /\ f' = 0
        \/ f < 127 /\ f' = f + 1 /\ n' = n
Spec == Init /\ [][Next]_vars

Laws ==
  LET str == FmtRoman(n, f)
      T == StrToSeq(str)
      u == UpperSeq(T)
      m == n \div 1000
      L == Len(T)
  IN
  \* round trip through the declarative parser, with and without the limit
  /\ RomanScan(u) = n
  /\ L <= 128 => ParseRomanRef(T, 0, 128) = Ok(n)
  /\ L > 128 => ParseRomanRef(T, 0, 128) = Fail({"ErrInputTooLong"}, {}, {})
  \* canonical form
  /\ n = 0 => T = <<>>
  /\ AllOf(SubSeq(u, 1, m), cM) /\ (L > m => u[m + 1] # cM \/ (n % 1000) \div 100 = 9)
  /\ Bit(f, FLower) => (str # FmtRoman(n, f - FLower) \/ n = 0) /\ u = StrToSeq(FmtRoman(n, f - FLower))
                          /\ \A i \in 1..L : IsLower(T[i])
  /\ ~Bit(f, FLower) => \A i \in 1..L : IsUpper(T[i])
  \* a long flag whose digit does not occur in n does not change the text
  /\ (n % 10 # 4 /\ Bit(f, FLong4)) => str = FmtRoman(n, f - FLong4)
  /\ (n % 10 # 9 /\ Bit(f, FLong9)) => str = FmtRoman(n, f - FLong9)
  /\ ((n \div 10) % 10 # 4 /\ Bit(f, FLong40)) => str = FmtRoman(n, f - FLong40)
  /\ ((n \div 100) % 10 # 9 /\ Bit(f, FLong900)) => str = FmtRoman(n, f - FLong900)
  \* subtractive unless the long flag is set: the units group
  /\ (n % 10 = 4 /\ ~Bit(f, FLong4)) => SubSeq(u, L - 1, L) = <<cI, cV>>
  /\ (n % 10 = 4 /\ Bit(f, FLong4))  => SubSeq(u, L - 3, L) = <<cI, cI, cI, cI>>
  /\ (n % 10 = 9 /\ ~Bit(f, FLong9)) => SubSeq(u, L - 1, L) = <<cI, cX>>
  /\ (n % 10 = 9 /\ Bit(f, FLong9))  => SubSeq(u, L - 4, L) = <<cV, cI, cI, cI, cI>>
=============================================================================
