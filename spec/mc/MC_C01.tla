------------------------------- MODULE MC_C01 -------------------------------
(***************************************************************************)
(* C01 on the specification alone: for every date of a set of boundary     *)
(* years x {extended, basic} x every input limit, the declarative parser   *)
(* maps the constructive formatter's text back to the date (when the text  *)
(* fits the limit; otherwise it must be refused as too long), and the text *)
(* has the canonical zero-padded shape.  The date under test walks the     *)
(* calendar day by day (NextDay), so the sweep is also the check that      *)
(* Ordinal counts days.                                                    *)
(***************************************************************************)
EXTENDS DateRef

Years == {0, 1, 4, 99, 100, 400, 1600, 1900, 1999, 2000, 2023, 2024, 9999, 10000, 99999,
          100000, 999999, 999999999}
Limits == {0, 8, 10, 11, 12, 13, 14, 15}

VARIABLES x, lim
vars == <<x, lim>>

Init == x \in {D(y, 1, 1) : y \in Years} /\ lim \in Limits
Next == ~(x.m = 12 /\ x.d = 31) /\ x' = NextDay(x) /\ lim' = lim
Spec == Init /\ [][Next]_vars

Fits(s) == lim = 0 \/ Len(s) <= lim

RoundTrip ==
  \A basic \in BOOLEAN :
    LET s == FmtDate(x, basic)  t == StrToSeq(s)  r == ParseDateRef(t, 0, lim) IN
      /\ Fits(s)  => r = Ok(x)
      /\ ~Fits(s) => IsFail(r) /\ r.req = {"ErrInputTooLong"}

Shape ==
  LET e == StrToSeq(FmtDate(x, FALSE))  b == StrToSeq(FmtDate(x, TRUE))  n == Len(b) - 4 IN
    /\ n >= 4 /\ (x.y <= 9999 => n = 4)
    /\ Len(e) = n + 6 /\ e[n + 1] = Hyphen /\ e[n + 4] = Hyphen
    /\ AllDigits(b)
    /\ b = SubSeq(e, 1, n) \o SubSeq(e, n + 2, n + 3) \o SubSeq(e, n + 5, n + 6)
    /\ DigitsVal(SubSeq(b, 1, n)) = x.y
    /\ DigitsVal(SubSeq(b, n + 1, n + 2)) = x.m /\ DigitsVal(SubSeq(b, n + 3, n + 4)) = x.d
    /\ DateShape(e).k = "ext" /\ DateShape(b).k = "basic"
    /\ DateLangEx(e) /\ DateLangEx(b)

\* Ordinal really counts days: consecutive days, consecutive ordinals; Civil inverts it
OrdinalStep == x.y <= 100000 => /\ Ord(NextDay(x)) = Ord(x) + 1
                                /\ Civil(Ord(x)) = x
                                /\ PrevDay(NextDay(x)) = x
Valid == ValidDate(x)
=============================================================================
