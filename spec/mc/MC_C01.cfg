SPECIFICATION Spec
CHECK_DEADLOCK FALSE
INVARIANT RoundTrip
INVARIANT Shape
INVARIANT OrdinalStep
INVARIANT Valid
