SPECIFICATION Spec
CHECK_DEADLOCK FALSE
INVARIANT Homomorphism
INVARIANT ShortenLaws
INVARIANT UnitLaws
INVARIANT SeparatorLaws
INVARIANT MarshalRoundTrip
