SPECIFICATION UtilSpec
CHECK_DEADLOCK FALSE
CONSTRAINT Bounded
VIEW View
INVARIANT TypeOK
PROPERTY Isolation
PROPERTY KeepOnFail
