SPECIFICATION Spec
CHECK_DEADLOCK FALSE
INVARIANT OrderIndependent
INVARIANT ImplRefinesRef
INVARIANT LimitRule
INVARIANT DocGates
