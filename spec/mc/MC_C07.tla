------------------------------- MODULE MC_C07 -------------------------------
(***************************************************************************)
(* C07 on the specification alone: over all ordered pairs of a boundary    *)
(* set of dates (month ends, leap days, century years, year 0/1/9999):     *)
(* exactly one of before / equal / after; the lexicographic order agrees   *)
(* with the day ordinal; Ordinal and Civil are inverse; AddYMD with zero   *)
(* years/months is ordinal addition; Normalize is idempotent and lands on  *)
(* real days; month overflow carries into years.                           *)
(***************************************************************************)
EXTENDS DateRef, SequencesExt

Ys == {0, 1, 4, 100, 400, 1899, 1900, 1999, 2000, 2023, 2024, 9999}
MDs == {<<1, 1>>, <<1, 31>>, <<2, 28>>, <<2, 29>>, <<3, 1>>, <<6, 30>>, <<7, 31>>, <<12, 31>>}
Dates == {D(yy, md[1], md[2]) : yy \in Ys, md \in MDs} \cap {x \in [y : Ys, m : 1..12, d : 1..31] : ValidDate(x)}

DSeq == SetToSeq(Dates)
N == Cardinality(Dates)

\* all ordered pairs, as N parallel chains (a fixed, b walking through the set)
VARIABLES i, j
vars == <<i, j>>
a == DSeq[i]
b == DSeq[j]
Init == i \in 1..N /\ j = 1
Next == j < N /\ j' = j + 1 /\ i' = i
Spec == Init /\ [][Next]_vars

B2I(x) == IF x THEN 1 ELSE 0

Order ==
  /\ B2I(Before(a, b)) + B2I(Equal(a, b)) + B2I(After(a, b)) = 1
  /\ Before(a, b) <=> Ord(a) < Ord(b)
  /\ After(a, b) <=> Ord(a) > Ord(b)
  /\ Before(a, b) <=> After(b, a)
  /\ SubDays(a, b) = -SubDays(b, a)

InverseLaw ==
  /\ Civil(Ord(a)) = a
  /\ Ord(NextDay(a)) = Ord(a) + 1
  /\ a.y > 0 => Ord(PrevDay(a)) = Ord(a) - 1

Arithmetic ==
  LET n == SubDays(b, a) IN
  /\ AddYMD(a, 0, 0, n) = b                          \* adding the day difference lands on b
  /\ AddDurDays(a, n) = b
  /\ Normalize(a.y, a.m, a.d) = a                     \* real days are fixed points
  /\ \A dm \in {-25, -12, -1, 0, 1, 11, 12, 13, 25} :
       LET r == AddYMD(a, 0, dm, 0)
           t == (a.y * 12 + (a.m - 1)) + dm            \* months since year 0
       IN /\ ValidDate(r)
          /\ Normalize(r.y, r.m, r.d) = r
          \* either the same day of the target month, or overflow into the following month
          /\ \/ (r.y * 12 + (r.m - 1) = t /\ r.d = a.d)
             \/ (r.y * 12 + (r.m - 1) = t + 1 /\ a.d > DaysIn(t \div 12, (t % 12) + 1)
                 /\ r.d = a.d - DaysIn(t \div 12, (t % 12) + 1))
  /\ \A dy \in {-4, -1, 1, 4, 100} :
       LET r == AddYMD(a, dy, 0, 0) IN
       /\ ValidDate(r)
       /\ \/ r = D(a.y + dy, a.m, a.d)
          \/ (a.m = 2 /\ a.d = 29 /\ ~IsLeap(a.y + dy) /\ r = D(a.y + dy, 3, 1))
=============================================================================
