SPECIFICATION Spec
CHECK_DEADLOCK FALSE
INVARIANT FiltersKeepBounds
INVARIANT Interval
INVARIANT FailRule
