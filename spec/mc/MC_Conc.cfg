SPECIFICATION CSpec
CHECK_DEADLOCK FALSE
CONSTANTS
  Procs <- MCProcs
  Args <- MCArgs
  Calls = 2
  Shared = FALSE
INVARIANT TypeOK
INVARIANT PerGoroutineSequential
PROPERTY NoInterference
PROPERTY AllDone
