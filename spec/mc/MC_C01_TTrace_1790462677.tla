---- MODULE MC_C01_TTrace_1790462677 ----
EXTENDS Sequences, TLCExt, Toolbox, Naturals, TLC, MC_C01

_expression ==
    LET MC_C01_TEExpression == INSTANCE MC_C01_TEExpression
    IN MC_C01_TEExpression!expression
----

_trace ==
    LET MC_C01_TETrace == INSTANCE MC_C01_TETrace
    IN MC_C01_TETrace!trace
----

_inv ==
    ~(
        TLCGet("level") = Len(_TETrace)
        /\
        lim = ()
        /\
        x = ()
    )
----

_init ==
    /\ x = _TETrace[1].x
    /\ lim = _TETrace[1].lim
----

_next ==
    /\ \E i,j \in DOMAIN _TETrace:
        /\ \/ /\ j = i + 1
              /\ i = TLCGet("level")
        /\ x  = _TETrace[i].x
        /\ x' = _TETrace[j].x
        /\ lim  = _TETrace[i].lim
        /\ lim' = _TETrace[j].lim

\* Uncomment the ASSUME below to write the states of the error trace
\* to the given file in Json format. Note that you can pass any tuple
\* to `JsonSerialize`. For example, a sub-sequence of _TETrace.
    \* ASSUME
    \*     LET J == INSTANCE Json
    \*         IN J!JsonSerialize("MC_C01_TTrace_1790462677.json", _TETrace)

=============================================================================

 Note that you can extract this module `MC_C01_TEExpression`
  to a dedicated file to reuse `expression` (the module in the 
  dedicated `MC_C01_TEExpression.tla` file takes precedence 
  over the module `MC_C01_TEExpression` below).

---- MODULE MC_C01_TEExpression ----
EXTENDS Sequences, TLCExt, Toolbox, Naturals, TLC, MC_C01

expression == 
    [
        \* To hide variables of the `MC_C01` spec from the error trace,
        \* remove the variables below.  The trace will be written in the order
        \* of the fields of this record.
        x |-> x
        ,lim |-> lim
        
        \* Put additional constant-, state-, and action-level expressions here:
        \* ,_stateNumber |-> _TEPosition
        \* ,_xUnchanged |-> x = x'
        
        \* Format the `x` variable as Json value.
        \* ,_xJson |->
        \*     LET J == INSTANCE Json
        \*     IN J!ToJson(x)
        
        \* Lastly, you may build expressions over arbitrary sets of states by
        \* leveraging the _TETrace operator.  For example, this is how to
        \* count the number of times a spec variable changed up to the current
        \* state in the trace.
        \* ,_xModCount |->
        \*     LET F[s \in DOMAIN _TETrace] ==
        \*         IF s = 1 THEN 0
        \*         ELSE IF _TETrace[s].x # _TETrace[s-1].x
        \*             THEN 1 + F[s-1] ELSE F[s-1]
        \*     IN F[_TEPosition - 1]
    ]

=============================================================================



Parsing and semantic processing can take forever if the trace below is long.
 In this case, it is advised to uncomment the module below to deserialize the
 trace from a generated binary file.

\*
\*---- MODULE MC_C01_TETrace ----
\*EXTENDS IOUtils, TLC, MC_C01
\*
\*trace == IODeserialize("MC_C01_TTrace_1790462677.bin", TRUE)
\*
\*=============================================================================
\*

---- MODULE MC_C01_TETrace ----
EXTENDS TLC, MC_C01

trace == 
    <<
    ([lim |-> 0,x |-> [y |-> 0, m |-> 1, d |-> 1]]),
    ([lim |-> ,x |-> ])
    >>
----


=============================================================================

---- CONFIG MC_C01_TTrace_1790462677 ----

INVARIANT
    _inv

CHECK_DEADLOCK
    \* CHECK_DEADLOCK off because of PROPERTY or INVARIANT above.
    FALSE

INIT
    _init

NEXT
    _next

CONSTANT
    _TETrace <- _trace

ALIAS
    _expression
=============================================================================
\* Generated on Sat Sep 26 22:44:39 UTC 2026