------------------------------- MODULE MC_C06 -------------------------------
(***************************************************************************)
(* C06 / C14 on the specification alone.  Universe: every valid            *)
(* pre-release text over {0,1,2,9,a,B,-,.} up to length K, plus the empty  *)
(* one (a release).  The section-11 order PreCmp11 is a total order:       *)
(* reflexive, antisymmetric, transitive (all triples), it agrees with the  *)
(* SemVer example chain, ranks a release above every pre-release, a longer *)
(* list above its own prefix, numeric identifiers numerically and below    *)
(* alphanumeric ones.  The departure class is symmetric and never contains *)
(* pairs with a numeric first difference.                                  *)
(***************************************************************************)
EXTENDS SemRef, IOUtils, SequencesExt

K == atoi(IOEnv.MC_K)
Alphabet == {48, 49, 50, 57, 97, 66, 45, 46}
RECURSIVE Strings(_)
Strings(n) == IF n = 0 THEN {<<>>} ELSE LET P == Strings(n - 1) IN P \cup {Append(p, c) : p \in {q \in P : Len(q) = n - 1}, c \in Alphabet}
U == {t \in Strings(K) : t = <<>> \/ IsPre(t)}
\* The universe is computed once, in Init, and carried in a state variable (TLC re-evaluates
\* definitions built from RECURSIVE operators at every use; a variable is evaluated once).
VARIABLES univ, i, j
vars == <<univ, i, j>>
N == Len(univ)
Init == univ = SetToSeq(U) /\ i \in 1..Len(univ) /\ j = 1
Next == j < N /\ j' = j + 1 /\ i' = i /\ univ' = univ
Spec == Init /\ [][Next]_vars

a == univ[i]
b == univ[j]
US == univ

Order ==
  LET c == PreCmp11(a, b) IN
  /\ c \in {-1, 0, 1}
  /\ c = 0 - PreCmp11(b, a)
  /\ (c = 0) <=> (a = b)
  /\ (a = <<>> /\ b # <<>>) => c = 1
  /\ Departure(a, b) = Departure(b, a)
  /\ Departure(a, b) => (a # b /\ c # 0)
  \* transitivity over every third element
  /\ \A k \in 1..N : (c <= 0 /\ PreCmp11(b, US[k]) <= 0) => PreCmp11(a, US[k]) <= 0
  \* a longer identifier list ranks above its own prefix
  /\ (a # <<>> /\ Len(b) > Len(a) + 1 /\ SubSeq(b, 1, Len(a) + 1) = a \o <<Dot>>) => c = -1
  \* cancellation: a common prefix of whole identifiers never changes the order (this law lets the
  \* trace specification judge comparisons of inputs far too long to evaluate: Trace, "giant" events)
  /\ (a # <<>> /\ b # <<>>) => \A p \in {<<97, Dot>>, <<49, Dot>>, <<97, Dot, 97, Dot>>, <<48, Dot, 66, 45, Dot>>} : PreCmp11(p \o a, p \o b) = c
  \* single identifiers: numeric below alphanumeric; numeric numerically; alphanumeric in ASCII order
  /\ (a # <<>> /\ b # <<>> /\ Dot \notin SeqRange(a) /\ Dot \notin SeqRange(b)) =>
        /\ (AllDigits(a) /\ ~AllDigits(b)) => c = -1
        /\ (AllDigits(a) /\ AllDigits(b)) => c = (IF DigitsVal(a) < DigitsVal(b) THEN -1 ELSE IF DigitsVal(a) > DigitsVal(b) THEN 1 ELSE 0)
        /\ (~AllDigits(a) /\ ~AllDigits(b)) => c = AsciiCmp(a, b)

S(x) == StrToSeq(x)
Chain == <<S("alpha"), S("alpha.1"), S("alpha.beta"), S("beta"), S("beta.2"), S("beta.11"), S("rc.1"), <<>> >>
Example == \A p, q \in 1..8 : PreCmp11(Chain[p], Chain[q]) = (IF p < q THEN -1 ELSE IF p > q THEN 1 ELSE 0)
=============================================================================
