------------------------------- MODULE MC_Util -------------------------------
(***************************************************************************)
(* Util explored exhaustively to a small depth (all interleavings of       *)
(* operations of the five packages), and the source of simulated           *)
(* behaviours for replay: in simulation mode every behaviour that reaches  *)
(* the depth bound is printed once as a BEHAVIOUR line (its hist).          *)
(***************************************************************************)
EXTENDS Util, Json, IOUtils

Depth == atoi(IOEnv.UTIL_DEPTH)
Bounded == Len(hist) < Depth                     \* CONSTRAINT for exhaustive runs
\* VIEW without observation-only variables (returns, hist)
View == <<dMax, dRecv, rMax, rFmt, rRecv, sMax, sRecv, zSw, zRule, zMax, zKeys, zRecv, uMax, uRecv, Len(hist)>>
Emit == Len(hist) < Depth \/ PrintT(<<"BEHAVIOUR", ToJson(hist)>>)
=============================================================================
