------------------------------- MODULE MC_C03 -------------------------------
(***************************************************************************)
(* C03 on the specification alone, over every string on                    *)
(* {0,1,9,a,Z,-,.,+,v} up to length MaxLen: the split-based definition of  *)
(* the grammar (ParseBody) and the left-to-right scanner (SemScan) accept  *)
(* the same texts; an accepted text is reproduced byte for byte by         *)
(* formatting its value; the tag prefix gates the three forms as stated;   *)
(* the value is valid (ValidVer) and parsing the formatted value gives the *)
(* value back.                                                             *)
(***************************************************************************)
EXTENDS SemRef, IOUtils

MaxLen == atoi(IOEnv.GRAPH_MAXLEN)
Alphabet == {48, 49, 57, 97, 90, 45, 46, 43, 118}

VARIABLE s
Init == s = <<>>
Next == Len(s) < MaxLen /\ \E c \in Alphabet : s' = Append(s, c)
Spec == Init /\ [][Next]_s

Laws ==
  LET both == ParseSemRef(s, {FormVersion, FormTag}, 1024)
      ver  == ParseSemRef(s, {FormVersion}, 1024)
      tag  == ParseSemRef(s, {FormTag}, 1024)
      isTag == Len(s) > 0 /\ s[1] = cv
      body == IF isTag THEN Tail(s) ELSE s
  IN
  /\ ParseBody(body).ok <=> (Len(body) > 0 /\ SemScan(body))      \* two definitions (no number reaches 2^64 here)
  /\ IsOk(both) <=> (Len(s) > 0 /\ ParseBody(body).ok)
  /\ IsOk(ver) <=> (IsOk(both) /\ ~isTag)
  /\ IsOk(tag) <=> (IsOk(both) /\ isTag)
  /\ IsOk(ver) => ver = both
  /\ IsOk(tag) => tag = both
  /\ IsOk(both) => /\ FmtSem(both.v, isTag) = s                   \* reproduces the input
                   /\ ValidVer(both.v)
                   /\ ParseSemRef(FmtSem(both.v, FALSE), {FormVersion}, 1024) = Ok(both.v)
                   /\ ParseSemRef(FmtSem(both.v, TRUE), {FormTag}, 1024) = Ok(both.v)
=============================================================================
