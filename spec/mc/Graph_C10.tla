------------------------------ MODULE Graph_C10 ------------------------------
(***************************************************************************)
(* C10, complete function graph: TLC enumerates every string over          *)
(* {I,V,X,L,C,D,M} up to length MaxLen, evaluates the declarative parser   *)
(* and looks the point up in the graph recorded from roman.DefaultParser;  *)
(* the recorded anomalies (a case variant, the []byte instantiation, Valid *)
(* or UnmarshalText disagreeing with the upper-case string parse; an       *)
(* untyped or non-zero rejection; a panic) must be empty.                  *)
(***************************************************************************)
EXTENDS RomanRef, Json, IOUtils

G == JsonDeserialize(IOEnv.GRAPH_FILE)
MaxLen == atoi(IOEnv.GRAPH_MAXLEN)
AccPairs == {<<G.accepted[i][1], G.accepted[i][2]>> : i \in 1..Len(G.accepted)}
AccKeys  == {G.accepted[i][1] : i \in 1..Len(G.accepted)}
Anom     == {G.anomalies[i][1] : i \in 1..Len(G.anomalies)}

Alphabet == {cI, cV, cX, cL, cC, cD, cM}
VARIABLE s
Init == s = <<>>
Next == Len(s) < MaxLen /\ \E c \in Alphabet : s' = Append(s, c)
Spec == Init /\ [][Next]_s

Agree == LET r == ParseRomanRef(s, 0, 128) IN
         /\ s \notin Anom
         /\ IF IsOk(r) THEN <<s, r.v>> \in AccPairs ELSE s \notin AccKeys
Conform == Agree \/ PrintT(<<"GRAPH-MISMATCH", s>>)
=============================================================================
