------------------------------- MODULE MC_C16 -------------------------------
(***************************************************************************)
(* C16 on the slice model: for every prefix (length <= 3 over {'M','-'}),  *)
(* spare capacity <= 3 and output (length <= 3 over {'M','i'}) an          *)
(* append-only formatter returns prefix ++ output and leaves the caller's  *)
(* bytes alone, whether or not the append reallocates.  A formatter that   *)
(* post-processes the WHOLE buffer (lower-casing it, as roman's formatter  *)
(* did before the fix) is the negative control: the model must contain     *)
(* cases where it breaks the frame condition.                              *)
(***************************************************************************)
EXTENDS GoSlice, TLC

Sym == {77, 45, 105}      \* 'M' '-' 'i'
Seqs(n) == UNION {[1..k -> Sym] : k \in 0..n}

VARIABLES prefix, spare, out
vars == <<prefix, spare, out>>
Init == prefix \in Seqs(3) /\ spare \in 0..3 /\ out \in Seqs(3)
Next == UNCHANGED vars
Spec == Init /\ [][Next]_vars

Lower(b) == IF b = 77 THEN 109 ELSE b
Heap0 == (1 :> (prefix \o [i \in 1..spare |-> 0]))
Buf == Slice(1, Len(prefix), Len(prefix) + spare)

\* append-only writer
Good == AppendBytes(Heap0, Buf, out)
\* writer that lower-cases everything it returns
BadHeap == LET r == Good IN MapInPlace(r[1], r[2], r[2].len, Lower)
BadRes == BytesOf(BadHeap, Good[2])

FrameGood == /\ BytesOf(Good[1], Good[2]) = prefix \o out
             /\ SubSeq(Good[1][1], 1, Len(prefix)) = prefix          \* caller's bytes untouched
\* negative control: whenever the prefix contains an upper-case letter the bad writer breaks the frame
ControlBreaks == (\E i \in 1..Len(prefix) : prefix[i] = 77) =>
                    (BadRes # prefix \o [i \in 1..Len(out) |-> Lower(out[i])]
                     \/ SubSeq(BadHeap[1], 1, Len(prefix)) # prefix)
=============================================================================
