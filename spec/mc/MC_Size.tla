------------------------------- MODULE MC_Size -------------------------------
(***************************************************************************)
(* Size arithmetic on the specification alone (C04, C08, C13), over a      *)
(* stratified set of values: v = odd * 2^k for every k in 0..63 and a set  *)
(* of odd parts, neighbours of 1000^e and 1024^e, 2^64-1 and its           *)
(* neighbours.                                                             *)
(*  - BigDec agrees with native arithmetic on small values (homomorphism). *)
(*  - Shorten: value * 1024^k = v exactly and k is maximal (value odd...   *)
(*    not divisible by 1024, or unit EiB); zero gives 0 B.                 *)
(*  - the default and pretty renderings parse back to v under the text     *)
(*    grammar, for every format flag; grouping is in threes from the right.*)
(*  - for every unit, NewSizeRef accepts exactly when value * multiplier   *)
(*    fits 64 bits, and then returns the product.                          *)
(*  - separators never change the value of a text.                         *)
(***************************************************************************)
EXTENDS Size, SequencesExt

Odds == {<<1>>, <<3>>, <<1, 0, 2, 3>>, <<9, 9, 9>>, <<1, 0, 0, 1>>, <<4, 2, 9, 4, 9, 6, 7, 2, 9, 5>>}
RECURSIVE Shl(_, _)
Shl(a, k) == IF k = 0 THEN a ELSE Shl(BMulSmall(a, 2), k - 1)
Near == {BPow(1000, e) : e \in 0..6} \cup {BPow(1024, e) : e \in 0..6}
        \cup {BAddSmall(BPow(1000, e), 1) : e \in 0..6} \cup {BAddSmall(BPow(1024, e), 1) : e \in 0..6}
        \cup {BDivSmall(BMulSmall(BPow(1024, e), 1023), 1024).q : e \in 1..6}
        \cup {U64Max, BZero, <<1, 8, 4, 4, 6, 7, 4, 4, 0, 7, 3, 7, 0, 9, 5, 5, 1, 6, 1, 4>>, BPow(2, 63)}

VARIABLES odd, k
vars == <<odd, k, zvars>>
\* k = -1 enumerates Near through odd (a member of Near)
Init == ((odd \in Odds /\ k = 0) \/ (odd \in Near /\ k = -1)) /\ SizeInit
Next == k >= 0 /\ k < 63 /\ k' = k + 1 /\ odd' = odd /\ UNCHANGED zvars
Spec == Init /\ [][Next]_vars

V == IF k = -1 THEN odd ELSE Shl(odd, k)
InRange == FitsU64(V)

Homomorphism ==
  \A a \in {0, 1, 9, 10, 999, 1000, 1023, 1024, 65535, 99999}, b \in {0, 1, 7, 1000, 1024, 4095} :
    /\ BToInt(BFromInt(a)) = a
    /\ BAdd(BFromInt(a), BFromInt(b)) = BFromInt(a + b)
    /\ BMulSmall(BFromInt(a), b) = BFromInt(a * b)
    /\ b > 0 => (BDivSmall(BFromInt(a), b).q = BFromInt(a \div b) /\ BDivSmall(BFromInt(a), b).r = a % b)
    /\ BCmp(BFromInt(a), BFromInt(b)) = (IF a < b THEN -1 ELSE IF a > b THEN 1 ELSE 0)

ShortenLaws ==
  InRange =>
    LET s == Shorten(V)
        e == IndexIn(ShortUnits, s.unit) - 1 IN
    /\ e \in 0..6
    /\ MulUnit(s.value, StrToSeq(s.unit)) = BNorm(V)                          \* exact
    /\ (BIsZero(V) => (s.value = BZero /\ s.unit = "B"))
    /\ (~BIsZero(V) /\ e < 6) => BDivSmall(s.value, 1024).r # 0               \* maximal
    /\ \A f \in 0..3 : ParseSizeTextRef(StrToSeq(FmtSize(V, f % 2)), 0) = Ok(BNorm(V))
    /\ LET p == StrToSeq(FmtSize(V, FormatPretty))
           d == Len(s.value) IN
       \* digits, one space after every group of three counted from the right, one space, unit
       /\ Len(p) = d + ((d - 1) \div 3) + 1 + Len(s.unit)
       /\ \A i \in 1..(d + ((d - 1) \div 3)) :
            LET fromRight == d + ((d - 1) \div 3) - i + 1 IN
            IF fromRight % 4 = 0 THEN p[i] = Space ELSE IsDigit(p[i])

UnitLaws ==
  InRange =>
    \A u \in KnownUnits :
      LET r == NewSizeRef("int", V, u)
          zeroOnly == u \in {StrToSeq("ZB"), StrToSeq("YB"), StrToSeq("ZiB"), StrToSeq("YiB")} IN
      /\ (BIsZero(V)) => r = Ok(BZero)
      /\ (~BIsZero(V) /\ zeroOnly) => IsFail(r)
      /\ (~BIsZero(V) /\ ~zeroOnly) => (IsOk(r) <=> FitsU64(MulUnit(V, u)))
      /\ IsOk(r) => r.v = MulUnit(V, u)
      /\ IsFail(NewSizeRef("neg", V, u)) /\ IsFail(NewSizeRef("frac", V, u)) /\ IsFail(NewSizeRef("nan", V, u))

\* C04 on the specification: under every combination of the three marshalling switches the
\* specified marshal forms mean the size again under the specified parser (text, and the three
\* JSON forms: object, quoted text, number)
Switches == [dmtu : BOOLEAN, dmjs : BOOLEAN, dmjo : BOOLEAN]
MarshalRoundTrip ==
  InRange =>
    \A sw \in Switches :
      /\ ParseSizeTextRef(StrToSeq(MarshalTextRef(V, sw)), 0) = Ok(BNorm(V))
      /\ MjMeaning(StrToSeq(MarshalJSONRef(V, sw))) = Ok(BNorm(V))
      /\ (sw.dmjo /\ sw.dmjs) => AllDigits(StrToSeq(MarshalJSONRef(V, sw)))

SeparatorLaws ==
  (InRange /\ Len(V) >= 2) =>
    LET ds == AsciiOf(BNorm(V))
        plain == ParseSizeTextRef(ds \o StrToSeq("KiB"), 0) IN
    \A sep \in {<<Space>>, <<Under>>, <<194, 160>>, <<Space, Space>>, <<Under, Space>>} :
      /\ ParseSizeTextRef(<<ds[1]>> \o sep \o Tail(ds) \o StrToSeq("KiB"), 0) = plain
      /\ ParseSizeTextRef(ds \o sep \o StrToSeq("KiB"), 0) = plain
      /\ ParseSizeTextRef(<<Space, Space>> \o ds \o StrToSeq("KiB") \o <<Space, Space>>, 0) = plain
      /\ ParseSizeTextRef(ds \o StrToSeq("KiB"), RuleDisableUnit) = Fail({"ErrUnitDisabled"}, {}, {})
=============================================================================
