SPECIFICATION Spec
CHECK_DEADLOCK FALSE
INVARIANT Order
INVARIANT Example
