SPECIFICATION Spec
CHECK_DEADLOCK FALSE
INVARIANT FrameGood
INVARIANT ControlBreaks
