------------------------------- MODULE MC_C10 -------------------------------
(***************************************************************************)
(* C10 on the specification alone, over every string on {I,V,X,L,C,D,M} up *)
(* to length MaxLen: the existential definition (RomanSplit) and the       *)
(* greedy scanner (RomanScan) agree on membership and value; the parse is  *)
(* unambiguous (at most one split); every accepted text is what the        *)
(* formatter produces for its value under SOME flag set or uses additive   *)
(* forms the formatter can produce; the value is case-independent.         *)
(***************************************************************************)
EXTENDS RomanRef, IOUtils

MaxLen == atoi(IOEnv.GRAPH_MAXLEN)
SplitLen == 6      \* the cubic existential definition is compared up to this length
Alphabet == {cI, cV, cX, cL, cC, cD, cM}

VARIABLE s
Init == s = <<>>
Next == Len(s) < MaxLen /\ \E c \in Alphabet : s' = Append(s, c)
Spec == Init /\ [][Next]_s

Laws ==
  LET v == RomanScan(s)
      lower == [i \in 1..Len(s) |-> ToLowerB(s[i])]
      mixed == [i \in 1..Len(s) |-> IF i % 2 = 0 THEN ToLowerB(s[i]) ELSE s[i]]
  IN
  /\ Len(s) <= SplitLen => (RomanSplit(s) = v /\ SplitCount(s) <= 1)
  /\ RomanValue(lower) = v /\ RomanValue(mixed) = v
  /\ v >= 0 => \E f \in 0..63 : StrToSeq(FmtRoman(v, f)) = s     \* accepted = producible by the formatter
  /\ (v >= 0 /\ Len(s) > 0) => ParseRomanRef(s, 1, 128) = Ok(v)
  /\ v < 0 => IsFail(ParseRomanRef(s, 0, 128))
=============================================================================
