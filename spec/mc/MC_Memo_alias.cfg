SPECIFICATION MSpec
CHECK_DEADLOCK FALSE
CONSTANTS
  Texts <- MCTexts
  Mode = "alias"
INVARIANT ResultIsOfArgument
