------------------------------- MODULE MC_C18 -------------------------------
(***************************************************************************)
(* C18 on the specification alone: every package's reference parser obeys  *)
(* the shared limit gate (Limits.TooLong) on a grid of maxima and input    *)
(* lengths, for inputs made of a valid text padded or cut to the length:   *)
(* over the limit <=> the expectation is exactly Fail({ErrInputTooLong});  *)
(* within the limit the expectation never mentions ErrInputTooLong and     *)
(* equals the expectation with the limit switched off.                     *)
(***************************************************************************)
EXTENDS DateRef, RomanRef, SemRef, UURef, Size, Limits

VARIABLES max, len, pkg
vars == <<max, len, pkg, zvars>>
Init == max \in {0, 1, 9, 10, 11, 36, 45, 46} /\ len \in {0, 1, 8, 9, 10, 11, 12, 35, 36, 37, 44, 45, 46, 47, 100}
        /\ pkg \in {"date", "roman", "sem", "size", "uu"} /\ SizeInit
Next == UNCHANGED vars
Spec == Init /\ [][Next]_vars

Seed == CASE pkg = "date" -> StrToSeq("2024-02-29")
          [] pkg = "roman" -> StrToSeq("MMMDCCCLXXXVIII")
          [] pkg = "sem" -> StrToSeq("1.2.3-rc.1+build")
          [] pkg = "size" -> StrToSeq("12345KiB")
          [] pkg = "uu" -> StrToSeq("123e4567-e89b-12d3-a456-426614174000")
Input == [i \in 1..len |-> IF i <= Len(Seed) THEN Seed[i] ELSE 49]

Expect(m) == CASE pkg = "date" -> ParseDateRef(Input, 0, m)
               [] pkg = "roman" -> ParseRomanRef(Input, 1, m)
               [] pkg = "sem" -> ParseSemRef(Input, {FormVersion, FormTag}, m)
               [] pkg = "size" -> SizeParseRef(Input, 0, [k |-> "other"], FALSE, m, 16)
               [] pkg = "uu" -> ParseIDRef(Input, 0, m)

Gate ==
  LET r == Expect(max) IN
  /\ TooLong(max, len) <=> (IsFail(r) /\ r.req = {"ErrInputTooLong"})
  /\ ~TooLong(max, len) => (r = Expect(0) /\ (IsFail(r) => "ErrInputTooLong" \in r.forb))
=============================================================================
