-------------------------------- MODULE Memo --------------------------------
(***************************************************************************)
(* The history dimension of a parser call, as a state machine: one caller  *)
(* buffer that the caller refills between calls, and a library that may    *)
(* remember its last successful parse.                                     *)
(*                                                                         *)
(* What the code does: it remembers nothing (Mode = "none").  A library    *)
(* that remembers the last input and result is still correct as long as    *)
(* the remembered key is a COPY of the input (Mode = "copy").  The named   *)
(* deviation Mode = "alias" keeps the caller's own slice as the key - the  *)
(* shape of every "last parsed input" shortcut over []byte(input) when the *)
(* input already is a []byte: after the caller refills its buffer the key  *)
(* has changed with it, the comparison is trivially true and the previous  *)
(* result comes back.  TLC finds that behaviour (negative control) and     *)
(* shows the two others correct for every sequence of refills, byte parses *)
(* and string parses.                                                      *)
(*                                                                         *)
(* This is the model behind the "one read buffer, two records" scenarios   *)
(* of the harness (C01/C02/C04/C05 .reuse, twin2, sem.cmp): they are the   *)
(* shortest behaviours on which the three modes differ.                    *)
(***************************************************************************)
EXTENDS Integers, Sequences

CONSTANTS Texts,    \* possible contents of the caller's buffer / of a string argument
          Mode      \* "none" | "copy" | "alias"

\* the sequential meaning of a parse: "ok" texts have a value, the others are refused
Value(t) == t
Accepts(t) == t # "bad"
Ref(t) == IF Accepts(t) THEN [ok |-> TRUE, v |-> Value(t)] ELSE [ok |-> FALSE, v |-> "zero"]

VARIABLES buf,      \* content of the caller's buffer
          memo,     \* [set, key, aliased, res]: what the library remembers
          last,     \* [arg, res]: argument content and result of the most recent call
          calls

vars == <<buf, memo, last, calls>>

Init == /\ buf \in Texts
        /\ memo = [set |-> FALSE, key |-> "none", aliased |-> FALSE, res |-> Ref("bad")]
        /\ last = [arg |-> "bad", res |-> Ref("bad")]
        /\ calls = 0

\* the key as the library sees it NOW: an aliased key reads the caller's buffer
KeyNow == IF memo.aliased THEN buf ELSE memo.key

Parse(t, fromBuffer) ==
  LET hit == Mode # "none" /\ memo.set /\ KeyNow = t
      r == IF hit THEN memo.res ELSE Ref(t) IN
  /\ last' = [arg |-> t, res |-> r]
  /\ memo' = IF Mode = "none" \/ hit \/ ~r.ok THEN memo      \* only successful misses are remembered
             ELSE [set |-> TRUE, key |-> t, aliased |-> (Mode = "alias" /\ fromBuffer), res |-> r]
  /\ calls' = calls + 1
  /\ UNCHANGED buf

ParseBytes == Parse(buf, TRUE)                     \* DefaultParser[[]byte](buffer) / UnmarshalText(buffer)
ParseString == \E t \in Texts : Parse(t, FALSE)    \* DefaultParser[string]: []byte(input) is a private copy

Refill == /\ \E t \in Texts : buf' = t
          /\ UNCHANGED <<memo, last, calls>>

Next == calls < 4 /\ (ParseBytes \/ ParseString \/ Refill)

MSpec == Init /\ [][Next]_vars

\* every call returns what its own argument means, whatever happened before
ResultIsOfArgument == last.res = Ref(last.arg) \/ calls = 0
=============================================================================
