------------------------------ MODULE Override ------------------------------
(***************************************************************************)
(* The overridable function variables Formatter / Parser of every package  *)
(* (specification growth, not one of the listed properties; demand codes   *)
(* "X.ovr_..." ).  A function variable is modelled by its mode:            *)
(*   "default"  the package's DefaultFormatter / DefaultParser             *)
(*   "error"    a function that always returns an error                    *)
(*   "stub"     a formatter appending "STUB" / a parser returning a fixed  *)
(*              non-zero value                                             *)
(* Documented behaviour:                                                   *)
(*   MarshalText  wraps the Formatter's error                              *)
(*   String, %s   fall back to the default formatter when Formatter fails  *)
(*                (size.String: to the plain number of bytes)              *)
(*   size.PrettyString panics when Formatter fails                         *)
(*   UnmarshalText uses Parser; on error the receiver is unchanged         *)
(*   uu.ID.URN always uses the default formatter                           *)
(***************************************************************************)
EXTENDS Integers, Sequences

Pkgs == {"date", "roman", "sem", "size", "uu"}
Modes == {"default", "error", "stub"}

VARIABLES oFmt, oParse      \* pkg -> mode
ovars == <<oFmt, oParse>>
OverrideInit == oFmt = [p \in Pkgs |-> "default"] /\ oParse = [p \in Pkgs |-> "default"]
OverrideSet(p, f, q) == oFmt' = [oFmt EXCEPT ![p] = f] /\ oParse' = [oParse EXCEPT ![p] = q]

\* def = the default rendering; plain = the plain number of bytes (size only)
StringRef(p, def, plain) == CASE oFmt[p] = "default" -> def
                              [] oFmt[p] = "stub" -> "STUB"
                              [] oFmt[p] = "error" -> IF p = "size" THEN plain ELSE def
\* MarshalText: [ok, out]; unitOff = size.DisableMarshalTextUnit (the Formatter is not consulted then)
MarshalRef(p, def, plain, unitOff) ==
  IF p = "size" /\ unitOff THEN [ok |-> TRUE, out |-> plain]
  ELSE CASE oFmt[p] = "default" -> [ok |-> TRUE, out |-> def]
         [] oFmt[p] = "stub" -> [ok |-> TRUE, out |-> "STUB"]
         [] oFmt[p] = "error" -> [ok |-> FALSE, out |-> ""]
=============================================================================
