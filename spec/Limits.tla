------------------------------- MODULE Limits -------------------------------
(***************************************************************************)
(* The input-length gate shared by the five parsers (C18): with a non-zero *)
(* maximum every longer input is refused with the package's                *)
(* ErrInputTooLong before anything else is looked at; no input within the  *)
(* maximum is refused for its length; zero removes the maximum.            *)
(***************************************************************************)
EXTENDS Integers

\* the gate as a function of the configured maximum and the input length
TooLong(max, len) == max # 0 /\ len > max
=============================================================================
