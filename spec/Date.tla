-------------------------------- MODULE Date --------------------------------
(***************************************************************************)
(* State machine of package date over the reference semantics of DateRef:  *)
(* the package variable MaxInputLength, one receiver that Unmarshal* /     *)
(* Scan overwrite, filters that capture their bounds, and the caller's     *)
(* bound variables.  One action per public operation; the linearization    *)
(* point is the call's return, observed in dRet.                           *)
(***************************************************************************)
EXTENDS DateRef

VARIABLES dMax,       \* date.MaxInputLength
          dRecv,      \* the receiver variable (a date)
          dFilt,      \* filters built so far: sequence of [from, to]
          dVars,      \* the caller's bound variables [from, to] (dates or NoDate)
          dRet        \* observation: what the last call returned

dvars == <<dMax, dRecv, dFilt, dVars, dRet>>

DateInit == /\ dMax = 10 /\ dRecv = ZeroDate /\ dFilt = <<>>
            /\ dVars = [from |-> NoDate, to |-> NoDate]
            /\ dRet = [k |-> "init"]

DateSetMax(n) == /\ dMax' = n /\ dRet' = [k |-> "unit"]
                 /\ UNCHANGED <<dRecv, dFilt, dVars>>

\* DefaultParser(text, rule): pure in the receiver
DateParse(t, rule) == /\ dRet' = ParseDateRef(t, rule, dMax)
                      /\ UNCHANGED <<dMax, dRecv, dFilt, dVars>>

\* UnmarshalText / JSON / XML string content: parser with rule 0 into the receiver;
\* on failure the receiver keeps its value (C17)
DateUnmarshalText(t) ==
  LET r == ParseDateRef(t, 0, dMax) IN
  /\ dRet' = r
  /\ dRecv' = IF IsOk(r) THEN r.v ELSE dRecv
  /\ UNCHANGED <<dMax, dFilt, dVars>>

DateUnmarshalBinary(b) ==
  LET r == BinDecodeRef(b) IN
  /\ dRet' = r
  /\ \/ IsOk(r) /\ dRecv' = r.v
     \/ IsFail(r) /\ dRecv' = dRecv
     \/ r.k = "failorvalid" /\ dRecv' = dRecv     \* the fixed library rejects
  /\ UNCHANGED <<dMax, dFilt, dVars>>

DateSetRecv(x) == /\ dRecv' = x /\ dRet' = [k |-> "unit"]
                  /\ UNCHANGED <<dMax, dFilt, dVars>>

\* caller assigns its bound variables
DateSetVars(from, to) == /\ dVars' = [from |-> from, to |-> to]
                         /\ dRet' = [k |-> "unit"]
                         /\ UNCHANGED <<dMax, dRecv, dFilt>>

\* FilterFromTo(&from, &to) with the caller's current variables
DateFilterBuild ==
  LET r == FilterBuildRef(dVars.from, dVars.to) IN
  /\ dRet' = r
  /\ dFilt' = IF IsOk(r) THEN Append(dFilt, r.v) ELSE dFilt
  /\ UNCHANGED <<dMax, dRecv, dVars>>

DateFilterContains(i, p) ==
  /\ i \in 1..Len(dFilt)
  /\ dRet' = Ok(FContains(dFilt[i], p))
  /\ UNCHANGED <<dMax, dRecv, dFilt, dVars>>

=============================================================================
