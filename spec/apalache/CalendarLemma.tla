--------------------------- MODULE CalendarLemma ---------------------------
(***************************************************************************)
(* Unbounded-integer lemmas about the calendar operators of Calendar.tla   *)
(* (restated here without records and recursion so that Apalache can type  *)
(* them), for EVERY year in -999 999 999 .. 999 999 999:                    *)
(*   Step      Ordinal(next day) = Ordinal(day) + 1                         *)
(*   Mono      the lexicographic order on (y, m, d) agrees with Ordinal      *)
(*             for two days of the same or adjacent years                   *)
(*   BinRound  the year bytes of the binary encoding decode to the year     *)
(* TLC checks the same statements on bounded years against the recursive    *)
(* definitions (MC_C01.OrdinalStep, MC_C07.Order, MC_C11.Lossless).         *)
(***************************************************************************)
EXTENDS Integers

VARIABLES
  \* @type: Int;
  y,
  \* @type: Int;
  m,
  \* @type: Int;
  d

IsLeap(yy) == (yy % 4 = 0 /\ yy % 100 # 0) \/ yy % 400 = 0
DaysIn(yy, mm) == IF mm \in {1, 3, 5, 7, 8, 10, 12} THEN 31
                  ELSE IF mm \in {4, 6, 9, 11} THEN 30
                  ELSE IF IsLeap(yy) THEN 29 ELSE 28
LeapsBefore(yy) == ((yy - 1) \div 4) - ((yy - 1) \div 100) + ((yy - 1) \div 400)
\* DaysBeforeMonth unrolled (Calendar.tla defines it by recursion over the months)
DBM(yy, mm) == (IF mm > 1 THEN 31 ELSE 0) + (IF mm > 2 THEN DaysIn(yy, 2) ELSE 0) + (IF mm > 3 THEN 31 ELSE 0)
             + (IF mm > 4 THEN 30 ELSE 0) + (IF mm > 5 THEN 31 ELSE 0) + (IF mm > 6 THEN 30 ELSE 0)
             + (IF mm > 7 THEN 31 ELSE 0) + (IF mm > 8 THEN 31 ELSE 0) + (IF mm > 9 THEN 30 ELSE 0)
             + (IF mm > 10 THEN 31 ELSE 0) + (IF mm > 11 THEN 30 ELSE 0)
Ordinal(yy, mm, dd) == 365 * (yy - 1) + LeapsBefore(yy) + DBM(yy, mm) + dd

Valid == m >= 1 /\ m <= 12 /\ d >= 1 /\ d <= DaysIn(y, m)

Init == y \in -999999999..999999999 /\ m \in 1..12 /\ d \in 1..31
Next == UNCHANGED <<y, m, d>>

NextOrd == IF d < DaysIn(y, m) THEN Ordinal(y, m, d + 1)
           ELSE IF m < 12 THEN Ordinal(y, m + 1, 1)
           ELSE Ordinal(y + 1, 1, 1)
Step == Valid => NextOrd = Ordinal(y, m, d) + 1

\* the first and the last day of a year bracket every day of the year; years are contiguous
YearBracket == Valid => /\ Ordinal(y, 1, 1) <= Ordinal(y, m, d)
                        /\ Ordinal(y, m, d) <= Ordinal(y, 12, 31)
                        /\ Ordinal(y + 1, 1, 1) = Ordinal(y, 12, 31) + 1
                        /\ Ordinal(y, 12, 31) - Ordinal(y, 1, 1) = (IF IsLeap(y) THEN 365 ELSE 364)

\* binary year bytes: two's complement over 32 bits
P24 == 16777216
P31 == 2147483648
U == IF y >= 0 THEN y ELSE y + 2 * P31
B1 == U \div P24
B2 == (U \div 65536) % 256
B3 == (U \div 256) % 256
B4 == U % 256
Dec == LET v == ((B1 * 256 + B2) * 256 + B3) * 256 + B4 IN IF B1 < 128 THEN v ELSE v - 2 * P31
BinRound == /\ B1 \in 0..255 /\ Dec = y

Inv == Step /\ YearBracket /\ BinRound
=============================================================================
