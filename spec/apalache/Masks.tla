------------------------------- MODULE Masks -------------------------------
(***************************************************************************)
(* The bit masks of uu.RandomID, for ALL pairs of 63-bit draws (Apalache,  *)
(* unbounded integers):                                                    *)
(*   Higher = ((a & 0xffffffffffff8000) << 1) | 0x4000 | (a & 0xfff)       *)
(*   Lower  = (b >> 1) | 0x8000000000000000                                *)
(* Lemma: the version nibble is 4, the two top bits of Lower are 10, and    *)
(* the remaining 122 bits are exactly bits 62..15 and 11..0 of a and bits   *)
(* 62..1 of b - so every free bit can take both values and distinct draws   *)
(* (on those bits) give distinct IDs.                                      *)
(***************************************************************************)
EXTENDS Integers

VARIABLES
  \* @type: Int;
  a,
  \* @type: Int;
  b

P15 == 32768
P12 == 4096
P16 == 65536
P62 == 4611686018427387904
P63 == 9223372036854775808

Higher == ((a - (a % P15)) * 2) + 16384 + (a % P12)
Lower == (b \div 2) + P63

Init == a \in 0..(P63 - 1) /\ b \in 0..(P63 - 1)
Next == UNCHANGED <<a, b>>

Inv == /\ (Higher \div P12) % 16 = 4                 \* version 4
       /\ Lower \div P62 = 2                          \* variant bits 10
       /\ Higher \div P16 = a \div P15                \* bits 63..16 of Higher = bits 62..15 of a
       /\ Higher % P12 = a % P12                      \* bits 11..0
       /\ Lower % P62 = b \div 2                      \* bits 61..0 of Lower = bits 62..1 of b
       /\ Higher < 2 * P63 /\ Lower < 2 * P63         \* 64-bit
=============================================================================
