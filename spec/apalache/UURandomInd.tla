---------------------------- MODULE UURandomInd ----------------------------
(***************************************************************************)
(* Inductive safety proof of the RandomID lock protocol with Apalache, for *)
(* NG goroutines and ANY number of calls (unbounded generator position):   *)
(* the bounded TLC run of UURandom (3 goroutines x 2 calls) explores every *)
(* interleaving up to its bounds; here IndInv is shown inductive           *)
(*     IndInit => IndInv          (--init=IndInit --inv=IndInv --length=0) *)
(*     IndInv /\ Next => IndInv'  (--init=IndInv  --inv=IndInv --length=1) *)
(* and IndInv implies mutual exclusion and Ref (every call returns two     *)
(* consecutive generator positions).  The set of returned triples of        *)
(* UURandom is abstracted by the history variable ok ("every call returned  *)
(* so far had consecutive positions").                                      *)
(***************************************************************************)
EXTENDS Integers

NG == 5
G == 1..NG

VARIABLES
  \* @type: Int;
  lock,
  \* @type: Int;
  pos,
  \* @type: Int -> Str;
  pc,
  \* @type: Int -> Int;
  d1,
  \* @type: Int -> Int;
  d2,
  \* @type: Bool;
  ok

States == {"idle", "locked", "drew1", "drew2", "unlocked"}
InCritical(g) == pc[g] \in {"locked", "drew1", "drew2"}

Lock(g) == /\ pc[g] = "idle" /\ lock = 0
           /\ lock' = g /\ pc' = [pc EXCEPT ![g] = "locked"]
           /\ UNCHANGED <<pos, d1, d2, ok>>
Draw1(g) == /\ pc[g] = "locked"
            /\ d1' = [d1 EXCEPT ![g] = pos] /\ pos' = pos + 1 /\ pc' = [pc EXCEPT ![g] = "drew1"]
            /\ UNCHANGED <<lock, d2, ok>>
Draw2(g) == /\ pc[g] = "drew1"
            /\ d2' = [d2 EXCEPT ![g] = pos] /\ pos' = pos + 1 /\ pc' = [pc EXCEPT ![g] = "drew2"]
            /\ UNCHANGED <<lock, d1, ok>>
Unlock(g) == /\ pc[g] = "drew2"
             /\ lock' = (IF lock = g THEN 0 ELSE lock) /\ pc' = [pc EXCEPT ![g] = "unlocked"]
             /\ UNCHANGED <<pos, d1, d2, ok>>
Return(g) == /\ pc[g] = "unlocked"
             /\ ok' = (ok /\ d2[g] = d1[g] + 1)
             /\ pc' = [pc EXCEPT ![g] = "idle"]
             /\ UNCHANGED <<lock, pos, d1, d2>>
Next == \E g \in G : Lock(g) \/ Draw1(g) \/ Draw2(g) \/ Unlock(g) \/ Return(g)

Init == /\ lock = 0 /\ pos = 0 /\ pc = [g \in G |-> "idle"]
        /\ d1 = [g \in G |-> 0] /\ d2 = [g \in G |-> 0] /\ ok = TRUE

TypeOK == /\ lock \in 0..NG /\ pos \in Nat
          /\ pc \in [G -> States] /\ d1 \in [G -> Int] /\ d2 \in [G -> Int] /\ ok \in BOOLEAN

IndInv ==
  /\ TypeOK
  /\ \A g \in G : InCritical(g) => lock = g                 \* mutual exclusion
  /\ lock # 0 => InCritical(lock)
  /\ \A g \in G : pc[g] = "drew1" => d1[g] = pos - 1
  /\ \A g \in G : pc[g] = "drew2" => (d1[g] = pos - 2 /\ d2[g] = pos - 1)
  /\ \A g \in G : pc[g] = "unlocked" => d2[g] = d1[g] + 1
  /\ ok                                                      \* Ref: consecutive draws for every call so far

\* IndInit: an arbitrary state satisfying the invariant (Apalache picks it symbolically)
IndInit == IndInv
Safety == /\ (\A g, h \in G : (InCritical(g) /\ InCritical(h)) => g = h) /\ ok
=============================================================================
