------------------------------ MODULE UURandom ------------------------------
(***************************************************************************)
(* uu.RandomID as a concurrent algorithm (C19).                            *)
(*                                                                         *)
(* Goroutines call RandomID, which is                                      *)
(*     Lock ; Draw ; Draw ; Unlock ; Compose                               *)
(* on a process-wide generator.  The generator is abstracted to its        *)
(* position (the number of values drawn so far): a draw returns the        *)
(* current position and advances it.  Ref: every call obtains two          *)
(* CONSECUTIVE positions, and no position is handed out twice - which is   *)
(* what makes the IDs of a run distinct for distinct generator outputs.    *)
(* Locked = FALSE gives the lock-free variant used as a negative control:  *)
(* TLC must find an interleaving that breaks Ref.                          *)
(***************************************************************************)
EXTENDS Integers, Sequences, FiniteSets

CONSTANTS G,        \* set of goroutines
          Calls,    \* calls per goroutine
          Locked    \* TRUE: the library's mutex protocol; FALSE: negative control

VARIABLES lock,     \* 0 = free, else the holder
          pos,      \* generator position
          pc,       \* per goroutine: "idle", "locked", "drew1", "drew2", "unlocked", "done"
          d1, d2,   \* per goroutine: positions drawn in the current call
          left,     \* per goroutine: calls still to make
          ret       \* set of <<g, p1, p2>> returned so far
rvars == <<lock, pos, pc, d1, d2, left, ret>>

RInit == /\ lock = 0 /\ pos = 0
         /\ pc = [g \in G |-> "idle"] /\ d1 = [g \in G |-> -1] /\ d2 = [g \in G |-> -1]
         /\ left = [g \in G |-> Calls] /\ ret = {}

Lock(g) == /\ pc[g] = "idle" /\ left[g] > 0
           /\ (Locked => lock = 0)
           /\ lock' = g /\ pc' = [pc EXCEPT ![g] = "locked"]
           /\ UNCHANGED <<pos, d1, d2, left, ret>>
Draw1(g) == /\ pc[g] = "locked"
            /\ d1' = [d1 EXCEPT ![g] = pos] /\ pos' = pos + 1 /\ pc' = [pc EXCEPT ![g] = "drew1"]
            /\ UNCHANGED <<lock, d2, left, ret>>
Draw2(g) == /\ pc[g] = "drew1"
            /\ d2' = [d2 EXCEPT ![g] = pos] /\ pos' = pos + 1 /\ pc' = [pc EXCEPT ![g] = "drew2"]
            /\ UNCHANGED <<lock, d1, left, ret>>
Unlock(g) == /\ pc[g] = "drew2"
             /\ lock' = (IF lock = g THEN 0 ELSE lock) /\ pc' = [pc EXCEPT ![g] = "unlocked"]
             /\ UNCHANGED <<pos, d1, d2, left, ret>>
Return(g) == /\ pc[g] = "unlocked"
             /\ ret' = ret \cup {<<g, d1[g], d2[g]>>}
             /\ left' = [left EXCEPT ![g] = @ - 1]
             /\ pc' = [pc EXCEPT ![g] = "idle"]
             /\ UNCHANGED <<lock, pos, d1, d2>>

RNext == \E g \in G : Lock(g) \/ Draw1(g) \/ Draw2(g) \/ Unlock(g) \/ Return(g)
RSpec == RInit /\ [][RNext]_rvars /\ WF_rvars(RNext)

InCritical(g) == pc[g] \in {"locked", "drew1", "drew2"}
MutualExclusion == \A g, h \in G : (InCritical(g) /\ InCritical(h)) => g = h
\* Ref: each call sees two consecutive positions, and positions are never shared between calls
Consecutive == \A r \in ret : r[3] = r[2] + 1
NoSharing == \A r, s \in ret : (r # s) => {r[2], r[3]} \cap {s[2], s[3]} = {}
AllDone == <>(\A g \in G : left[g] = 0)
=============================================================================
