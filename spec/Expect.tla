------------------------------- MODULE Expect -------------------------------
(***************************************************************************)
(* Three-valued expectations.  Every reference operator of a package       *)
(* module answers with one of                                              *)
(*   Ok(v)                 the call must succeed with exactly v             *)
(*   Fail(req, any, forb)  the call must fail; every sentinel of req must   *)
(*                         be reported by errors.Is, at least one of any    *)
(*                         (if non-empty), none of forb                     *)
(*   DontCare              the property is silent                           *)
(* so that a check never demands more than its property states.            *)
(* Sentinels are named by their Go identifiers ("ErrInputTooLong").         *)
(***************************************************************************)
EXTENDS Integers, Sequences, FiniteSets

Ok(v)                == [k |-> "ok", v |-> v]
Fail(req, any, forb) == [k |-> "fail", req |-> req, any |-> any, forb |-> forb]
FailPlain            == Fail({}, {}, {})
DontCare             == [k |-> "any"]

IsOk(x)   == x.k = "ok"
IsFail(x) == x.k = "fail"
IsAny(x)  == x.k = "any"

NotTooLong == {"ErrInputTooLong"}

SeqRange(s) == {s[i] : i \in 1..Len(s)}

\* does the observed sentinel list (sequence of names) satisfy a Fail expectation?
SentinelsOK(x, is) == LET S == SeqRange(is) IN
                      /\ x.req \subseteq S
                      /\ (x.any = {} \/ x.any \cap S # {})
                      /\ x.forb \cap S = {}

=============================================================================
