-------------------------------- MODULE Conc --------------------------------
(***************************************************************************)
(* The schedule dimension of the value-type calls (parsers, formatters,    *)
(* marshal methods): several goroutines of one process call the library.   *)
(*                                                                         *)
(* What the code does: every call works on storage of its own - the parser *)
(* copies its input ([]byte(input)), a formatter appends to the buffer its *)
(* caller handed in, URN() allocates its prefix - and reads the package    *)
(* configuration only.  A call is therefore two steps of ONE goroutine,    *)
(* Begin (take the argument into working storage) and End (compute the     *)
(* result from the working storage), and any number of steps of other      *)
(* goroutines may come between them.                                       *)
(*                                                                         *)
(* Result: with private working storage, every goroutine's own history is  *)
(* a history of the sequential specification (each result is F of the      *)
(* call's own argument), whatever the interleaving.  That is why the       *)
(* concurrent leg of the harness validates each goroutine's trace against  *)
(* the same Trace.tla as the sequential drivers.                           *)
(*                                                                         *)
(* Shared = TRUE is the named deviation "working storage is a package      *)
(* variable" (the shape of a scratch buffer, a one-entry memo or a shared  *)
(* prefix buffer): TLC then finds the interleaving in which a result is    *)
(* computed from another goroutine's argument (negative control).          *)
(***************************************************************************)
EXTENDS Integers, Sequences, FiniteSets

CONSTANTS Procs,    \* goroutines
          Args,     \* arguments of calls
          Calls,    \* calls per goroutine
          Shared    \* FALSE: private working storage (the code); TRUE: the deviation

VARIABLES pc,       \* pc[p] \in {"idle", "working"}
          arg,      \* the argument of p's call in flight
          priv,     \* private working storage of p
          scratch,  \* the package-level working storage (used only when Shared)
          hist      \* hist[p]: sequence of <<argument, result>> of p's completed calls

vars == <<pc, arg, priv, scratch, hist>>

\* the sequential meaning of a call; any function will do, the identity keeps results comparable
F(a) == a

None == "none"   \* never an argument

Init == /\ pc = [p \in Procs |-> "idle"]
        /\ arg = [p \in Procs |-> None]
        /\ priv = [p \in Procs |-> None]
        /\ scratch = None
        /\ hist = [p \in Procs |-> <<>>]

Begin(p, a) == /\ pc[p] = "idle"
               /\ Len(hist[p]) < Calls
               /\ pc' = [pc EXCEPT ![p] = "working"]
               /\ arg' = [arg EXCEPT ![p] = a]
               /\ IF Shared THEN scratch' = a /\ UNCHANGED priv
                            ELSE priv' = [priv EXCEPT ![p] = a] /\ UNCHANGED scratch
               /\ UNCHANGED hist

End(p) == /\ pc[p] = "working"
          /\ LET w == IF Shared THEN scratch ELSE priv[p] IN
             hist' = [hist EXCEPT ![p] = Append(@, <<arg[p], F(w)>>)]
          /\ pc' = [pc EXCEPT ![p] = "idle"]
          /\ UNCHANGED <<arg, priv, scratch>>

Next == \E p \in Procs : End(p) \/ \E a \in Args : Begin(p, a)

CSpec == Init /\ [][Next]_vars /\ WF_vars(Next)

TypeOK == /\ pc \in [Procs -> {"idle", "working"}]
          /\ \A p \in Procs : Len(hist[p]) <= Calls

\* every goroutine's own history is sequential: each result is F of that call's argument
PerGoroutineSequential ==
  \A p \in Procs : \A i \in 1..Len(hist[p]) : hist[p][i][2] = F(hist[p][i][1])

\* a goroutine's call changes nothing another goroutine's call reads (frame condition)
NoInterference ==
  [][\A p \in Procs : (\E a \in Args : Begin(p, a)) \/ End(p) =>
        \A q \in Procs \ {p} : priv'[q] = priv[q] /\ arg'[q] = arg[q] /\ hist'[q] = hist[q]]_vars

AllDone == <>(\A p \in Procs : Len(hist[p]) = Calls)
=============================================================================
