----------------------------- MODULE ConcProof -----------------------------
(***************************************************************************)
(* TLAPS proof, for ANY number of goroutines, arguments and calls, of the  *)
(* safety half of spec/Conc.tla: with private working storage every        *)
(* goroutine's own history is sequential.  (TLC checks the same for        *)
(* 3 goroutines x 2 calls x 3 arguments, plus liveness and the negative    *)
(* control; this proof removes the bounds from the safety claim.)          *)
(*                                                                         *)
(* The module restates Conc with Shared = FALSE; F is an arbitrary         *)
(* operator (the sequential meaning of a call).                            *)
(***************************************************************************)
EXTENDS Integers, Sequences, TLAPS

CONSTANTS Procs, Args, Calls, F(_)
ASSUME CallsNat == Calls \in Nat

VARIABLES pc, arg, priv, hist
vars == <<pc, arg, priv, hist>>

None == "none"

Init == /\ pc = [p \in Procs |-> "idle"]
        /\ arg = [p \in Procs |-> None]
        /\ priv = [p \in Procs |-> None]
        /\ hist = [p \in Procs |-> <<>>]

Begin(p, a) == /\ pc[p] = "idle"
               /\ Len(hist[p]) < Calls
               /\ pc' = [pc EXCEPT ![p] = "working"]
               /\ arg' = [arg EXCEPT ![p] = a]
               /\ priv' = [priv EXCEPT ![p] = a]
               /\ UNCHANGED hist

End(p) == /\ pc[p] = "working"
          /\ hist' = [hist EXCEPT ![p] = Append(@, <<arg[p], F(priv[p])>>)]
          /\ pc' = [pc EXCEPT ![p] = "idle"]
          /\ UNCHANGED <<arg, priv>>

Next == \E p \in Procs : End(p) \/ \E a \in Args : Begin(p, a)

Spec == Init /\ [][Next]_vars

PerGoroutineSequential ==
  \A p \in Procs : \A i \in 1..Len(hist[p]) : hist[p][i][2] = F(hist[p][i][1])

\* the inductive invariant: types, and a working goroutine's storage holds its own argument
Inv == /\ pc \in [Procs -> {"idle", "working"}]
       /\ hist \in [Procs -> Seq(Args \X {F(a) : a \in Args})]
       /\ arg \in [Procs -> Args \cup {None}]
       /\ priv \in [Procs -> Args \cup {None}]
       /\ \A p \in Procs : pc[p] = "working" => (arg[p] \in Args /\ priv[p] = arg[p])
       /\ PerGoroutineSequential

THEOREM InitInv == Init => Inv
  BY DEF Init, Inv, PerGoroutineSequential

THEOREM NextInv == Inv /\ [Next]_vars => Inv'
<1> SUFFICES ASSUME Inv, [Next]_vars PROVE Inv'
  OBVIOUS
<1>1. CASE UNCHANGED vars
  BY <1>1 DEF Inv, PerGoroutineSequential, vars
<1>2. ASSUME NEW p \in Procs, NEW a \in Args, Begin(p, a) PROVE Inv'
  BY <1>2 DEF Inv, PerGoroutineSequential, Begin
<1>3. ASSUME NEW p \in Procs, End(p) PROVE Inv'
  <2> DEFINE e == <<arg[p], F(priv[p])>>
  <2>1. arg[p] \in Args /\ priv[p] = arg[p]
    BY <1>3 DEF Inv, End
  <2>2. e \in Args \X {F(x) : x \in Args}
    BY <2>1
  <2>3. hist[p] \in Seq(Args \X {F(x) : x \in Args})
    BY DEF Inv
  <2>4. hist' = [hist EXCEPT ![p] = Append(hist[p], e)]
    BY <1>3 DEF End
  <2>5. Append(hist[p], e) \in Seq(Args \X {F(x) : x \in Args})
    BY <2>2, <2>3
  <2>6. hist' \in [Procs -> Seq(Args \X {F(x) : x \in Args})]
    BY <2>4, <2>5 DEF Inv
  <2>7. \A q \in Procs : \A i \in 1..Len(hist'[q]) : hist'[q][i][2] = F(hist'[q][i][1])
    <3> SUFFICES ASSUME NEW q \in Procs, NEW i \in 1..Len(hist'[q]) PROVE hist'[q][i][2] = F(hist'[q][i][1])
      OBVIOUS
    <3>1. CASE q # p
      BY <3>1, <2>4 DEF Inv, PerGoroutineSequential
    <3>2. CASE q = p
      <4>1. hist'[p] = Append(hist[p], e)
        BY <2>4 DEF Inv
      <4>2. Len(hist'[p]) = Len(hist[p]) + 1
        BY <4>1, <2>3
      <4>3. CASE i <= Len(hist[p])
        <5>1. hist'[p][i] = hist[p][i]
          BY <4>1, <4>3, <2>3
        <5> QED BY <5>1, <4>3, <3>2 DEF Inv, PerGoroutineSequential
      <4>4. CASE i = Len(hist[p]) + 1
        <5>1. hist'[p][i] = e
          BY <4>1, <4>4, <2>3
        <5> QED BY <5>1, <2>1, <3>2
      <4> QED BY <4>2, <4>3, <4>4, <3>2, <2>3
    <3> QED BY <3>1, <3>2
  <2>8. pc' \in [Procs -> {"idle", "working"}] /\ arg' \in [Procs -> Args \cup {None}] /\ priv' \in [Procs -> Args \cup {None}]
    BY <1>3 DEF Inv, End
  <2>9. \A q \in Procs : pc'[q] = "working" => (arg'[q] \in Args /\ priv'[q] = arg'[q])
    BY <1>3 DEF Inv, End
  <2> QED BY <2>6, <2>7, <2>8, <2>9 DEF Inv, PerGoroutineSequential
<1> QED BY <1>1, <1>2, <1>3 DEF Next

THEOREM Safety == Spec => []PerGoroutineSequential
<1>1. Inv => PerGoroutineSequential
  BY DEF Inv
<1> QED BY InitInv, NextInv, <1>1, PTL DEF Spec
=============================================================================
