-------------------------------- MODULE Lazy --------------------------------
(***************************************************************************)
(* Configuration and first use.  The packages are configured by package    *)
(* variables (MaxInputLength, DefaultFormat, DefaultRule, Disable*, ...)   *)
(* that a program may change at any time.  The property read by the        *)
(* specification: a call behaves according to the configuration in force   *)
(* WHEN IT IS MADE.                                                        *)
(*                                                                         *)
(* What the code does (Mode = "read"): every call reads the variables.     *)
(* A library that derives something from the configuration (a compiled     *)
(* pattern, a pooled buffer of MaxInputLength bytes, a table of            *)
(* renderings) is still correct if it derives it again whenever the        *)
(* configuration differs from the one it was derived from (Mode =          *)
(* "rederive").  The named deviation Mode = "frozen" derives it on first   *)
(* use and keeps it: TLC finds the behaviour set-configuration, call,      *)
(* change-configuration, call on which the second call still behaves as    *)
(* under the first configuration (negative control).  That behaviour is    *)
(* the prologue the harness runs in every driver process.                  *)
(***************************************************************************)
EXTENDS Integers

CONSTANTS Configs, Args, Mode     \* Mode: "read" | "rederive" | "frozen"

\* the sequential meaning of a call under a configuration
Meaning(c, a) == <<c, a>>

VARIABLES cfg,        \* the package variables now
          derived,    \* [set, from]: what the library derived and from which configuration
          last,       \* [cfg, arg, res] of the most recent call
          calls

vars == <<cfg, derived, last, calls>>

Init == /\ cfg \in Configs
        /\ derived = [set |-> FALSE, from |-> CHOOSE c \in Configs : TRUE]
        /\ last = [cfg |-> cfg, arg |-> CHOOSE a \in Args : TRUE, res |-> <<cfg, CHOOSE a \in Args : TRUE>>]
        /\ calls = 0

SetConfig == /\ \E c \in Configs : cfg' = c
             /\ UNCHANGED <<derived, last, calls>>

Call(a) ==
  LET stale == derived.set /\ derived.from # cfg
      use == CASE Mode = "read" -> cfg
               [] Mode = "rederive" -> cfg                                   \* derived again when stale
               [] Mode = "frozen" -> IF derived.set THEN derived.from ELSE cfg IN
  /\ derived' = CASE Mode = "read" -> derived
                  [] Mode = "rederive" -> [set |-> TRUE, from |-> cfg]
                  [] Mode = "frozen" -> IF derived.set THEN derived ELSE [set |-> TRUE, from |-> cfg]
  /\ last' = [cfg |-> cfg, arg |-> a, res |-> Meaning(use, a)]
  /\ calls' = calls + 1
  /\ UNCHANGED cfg

Next == calls < 3 /\ (SetConfig \/ \E a \in Args : Call(a))

LSpec == Init /\ [][Next]_vars

\* a call behaves according to the configuration in force when it is made
ConfigInForce == calls = 0 \/ last.res = Meaning(last.cfg, last.arg)
=============================================================================
