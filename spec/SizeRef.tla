------------------------------- MODULE SizeRef -------------------------------
(***************************************************************************)
(* Reference semantics of package size (pure operators).  Sizes and every  *)
(* other 64-bit quantity are BigDec digit sequences, so "exact or refused, *)
(* never wrapped" is stated with exact arithmetic.                         *)
(***************************************************************************)
EXTENDS Bytes, Expect, BigDec

RuleDisableUnit == 1
RuleEnableJSONStringForm == 2
RuleEnableJSONObjectForm == 4
RuleDisallowUnknownKeys == 8

(***************************************************************************)
(* Units: kB..YB = 1000^1..8, KiB..YiB = 1024^1..8, B and no unit = 1.     *)
(* ZB, YB, ZiB, YiB exceed 64 bits and are accepted only with zero.        *)
(***************************************************************************)
U(s) == StrToSeq(s)
DecUnits == <<U("kB"), U("MB"), U("GB"), U("TB"), U("PB"), U("EB"), U("ZB"), U("YB")>>
BinUnits == <<U("KiB"), U("MiB"), U("GiB"), U("TiB"), U("PiB"), U("EiB"), U("ZiB"), U("YiB")>>
KnownUnits == {<<>>, U("B")} \cup {DecUnits[i] : i \in 1..8} \cup {BinUnits[i] : i \in 1..8}

IndexIn(q, x) == IF \E i \in 1..Len(q) : q[i] = x THEN CHOOSE i \in 1..Len(q) : q[i] = x ELSE 0

\* multiplier of a known unit
UnitMult(u) == IF u = <<>> \/ u = U("B") THEN <<1>>
               ELSE IF IndexIn(DecUnits, u) > 0 THEN BPow(1000, IndexIn(DecUnits, u))
               ELSE BPow(1024, IndexIn(BinUnits, u))

\* n * mult by repeated small multiplications (mult = base^e)
MulUnit(n, u) == IF u = <<>> \/ u = U("B") THEN BNorm(n)
                 ELSE IF IndexIn(DecUnits, u) > 0
                      THEN LET e == IndexIn(DecUnits, u) IN
                           IF BIsZero(n) THEN BZero
                           ELSE BNorm(n) \o [i \in 1..(3 * e) |-> 0]           \* times 1000^e
                 ELSE LET RECURSIVE M(_, _)
                          M(x, k) == IF k = 0 THEN x ELSE M(BMulSmall(x, 1024), k - 1)
                      IN M(n, IndexIn(BinUnits, u))

\* size from a number and a unit.  cls: "int" (a non-negative integer, digits), or one of
\* "neg", "frac", "nan", "inf" (never acceptable, except that any zero is "int" <<0>>)
NewSizeRef(cls, digits, unit) ==
  IF cls # "int" THEN FailPlain
  ELSE IF BIsZero(digits) THEN (IF unit \in KnownUnits THEN Ok(BZero) ELSE FailPlain)
  ELSE IF unit \notin KnownUnits THEN FailPlain
  ELSE LET p == MulUnit(digits, unit) IN
       IF FitsU64(p) THEN Ok(p) ELSE FailPlain

(***************************************************************************)
(* Text grammar (C08): spaces around the whole; spaces, no-break spaces    *)
(* (U+00A0 = bytes C2 A0) and underscores between digits and before the    *)
(* unit; they never change the value.                                      *)
(***************************************************************************)
RECURSIVE LStrip(_)
LStrip(t) == IF t # <<>> /\ t[1] = Space THEN LStrip(Tail(t)) ELSE t
RECURSIVE RStrip(_)
RStrip(t) == IF t # <<>> /\ t[Len(t)] = Space THEN RStrip(SubSeq(t, 1, Len(t) - 1)) ELSE t

RECURSIVE FirstNonDigit(_, _)
FirstNonDigit(t, i) == IF i <= Len(t) /\ IsDigit(t[i]) THEN FirstNonDigit(t, i + 1) ELSE i

IsNbspAt(t, i) == i < Len(t) /\ t[i] = 194 /\ t[i + 1] = 160

\* scan the number part from position i: returns <<digits so far, position after the part,
\* odd = a non-space separator occurs after the last digit>>
RECURSIVE ScanNum(_, _, _, _)
ScanNum(t, i, ds, odd) ==
  IF i > Len(t) THEN <<ds, i, odd>>
  ELSE IF IsDigit(t[i]) THEN ScanNum(t, i + 1, Append(ds, t[i] - 48), FALSE)
  ELSE IF t[i] = Space THEN ScanNum(t, i + 1, ds, odd)
  ELSE IF t[i] = Under THEN ScanNum(t, i + 1, ds, TRUE)
  ELSE IF IsNbspAt(t, i) THEN ScanNum(t, i + 2, ds, TRUE)
  ELSE <<ds, i, odd>>

\* a unit followed by separators the property says nothing about ("KiB_")
RECURSIVE StripSeps(_)
StripSeps(u) == IF u # <<>> /\ u[Len(u)] \in {Space, Under} THEN StripSeps(SubSeq(u, 1, Len(u) - 1))
                ELSE IF Len(u) >= 2 /\ u[Len(u) - 1] = 194 /\ u[Len(u)] = 160 THEN StripSeps(SubSeq(u, 1, Len(u) - 2))
                ELSE u

ParseSizeTextRef(t, rule) ==
  LET x == RStrip(LStrip(t)) IN
  IF x = <<>> \/ ~IsDigit(x[1]) THEN FailPlain
  ELSE LET sc == ScanNum(x, 1, <<>>, FALSE)
           ds == sc[1]
           unit == SubSeq(x, sc[2], Len(x))
       IN
       IF unit = <<>> THEN
            (IF sc[3] THEN DontCare                       \* "1_" : separator after the last digit, no unit
             ELSE IF FitsU64(ds) THEN Ok(BNorm(ds)) ELSE FailPlain)
       ELSE IF unit \notin KnownUnits /\ StripSeps(unit) \in KnownUnits THEN DontCare   \* "1KiB_"
       ELSE IF ~FitsU64(ds) THEN FailPlain
       ELSE IF Bit(rule, RuleDisableUnit) THEN Fail({"ErrUnitDisabled"}, {}, {})
       ELSE NewSizeRef("int", ds, unit)

(***************************************************************************)
(* Shorten and renderings (C13)                                            *)
(***************************************************************************)
\* largest k <= 6 with 1024^k dividing n (n > 0)
RECURSIVE ShortenK(_, _)
ShortenK(n, k) == IF k = 6 THEN <<n, 6>>
                  ELSE LET d == BDivSmall(n, 1024) IN
                       IF d.r = 0 THEN ShortenK(d.q, k + 1) ELSE <<n, k>>
ShortUnits == <<"B", "KiB", "MiB", "GiB", "TiB", "PiB", "EiB">>
Shorten(n) == IF BIsZero(n) THEN [value |-> BZero, unit |-> "B"]
              ELSE LET r == ShortenK(BNorm(n), 0) IN [value |-> r[1], unit |-> ShortUnits[r[2] + 1]]

\* digits grouped in threes from the right, joined by sep, sep before the unit
RECURSIVE Grouped(_, _)
Grouped(ds, sep) == IF Len(ds) <= 3 THEN DigStr(ds)
                    ELSE Grouped(SubSeq(ds, 1, Len(ds) - 3), sep) \o sep \o DigStr(SubSeq(ds, Len(ds) - 2, Len(ds)))
FormatPretty == 1
FormatHTML == 2
FmtSize(n, f) == LET s == Shorten(n)
                     sep == IF ~Bit(f, FormatPretty) THEN "" ELSE IF Bit(f, FormatHTML) THEN "&nbsp;" ELSE " " IN
                 Grouped(s.value, sep) \o sep \o s.unit

(***************************************************************************)
(* Conversion to numeric kinds (C08): exactly representable <=> success    *)
(***************************************************************************)
RECURSIVE OddPart(_)
OddPart(n) == LET d == BDivSmall(n, 2) IN IF BIsZero(n) \/ d.r = 1 THEN n ELSE OddPart(d.q)
P2(e) == BPow(2, e)
KindMax(kind) ==
  CASE kind = "int8" -> <<1, 2, 7>> [] kind = "int16" -> <<3, 2, 7, 6, 7>>
    [] kind = "int32" -> <<2, 1, 4, 7, 4, 8, 3, 6, 4, 7>>
    [] kind \in {"int64", "int"} -> I64Max
    [] kind = "uint8" -> <<2, 5, 5>> [] kind = "uint16" -> <<6, 5, 5, 3, 5>>
    [] kind = "uint32" -> <<4, 2, 9, 4, 9, 6, 7, 2, 9, 5>>
    [] kind \in {"uint64", "uint"} -> U64Max
IsFloatKind(kind) == kind \in {"float32", "float64"}
Representable(n, kind) ==
  IF IsFloatKind(kind) THEN BLt(OddPart(BNorm(n)), P2(IF kind = "float32" THEN 24 ELSE 53))
  ELSE BLe(n, KindMax(kind))
KindBits(kind) == CASE kind \in {"int8", "uint8"} -> 8 [] kind \in {"int16", "uint16"} -> 16
                    [] kind \in {"int32", "uint32", "float32"} -> 32
                    [] OTHER -> 64
\* Bit patterns, most significant bit first, in the kind's own width.  The smallest non-zero value
\* of every kind is the pattern 0...01: the integer one, and for the IEEE 754 kinds the smallest
\* subnormal.  The largest finite IEEE 754 value has sign 0, the exponent field all ones but its
\* last bit, and the fraction all ones; the minimum is the same with sign 1.
FloatExpBits(kind) == IF kind = "float32" THEN 8 ELSE 11
SmallestPattern(kind) == [i \in 1..KindBits(kind) |-> IF i = KindBits(kind) THEN 1 ELSE 0]
FloatMaxPattern(kind, sign) ==
  [i \in 1..KindBits(kind) |-> IF i = 1 THEN sign ELSE IF i = FloatExpBits(kind) + 1 THEN 0 ELSE 1]
IsSignedKind(kind) == kind \in {"int", "int8", "int16", "int32", "int64", "float32", "float64"}

=============================================================================
