-------------------------------- MODULE Sem --------------------------------
(* State machine of package sem: MaxInputLength, one receiver, and the     *)
(* universe of pre-release texts that comparison rows refer to.            *)
EXTENDS SemRef

VARIABLES sMax, sRecv, sUniv, sRet
svars == <<sMax, sRecv, sUniv, sRet>>

ZeroVer == [major |-> <<48>>, minor |-> <<48>>, patch |-> <<48>>, pre |-> <<>>, build |-> <<>>]
SemInit == sMax = 1024 /\ sRecv = ZeroVer /\ sUniv = <<>> /\ sRet = [k |-> "init"]

SemSetMax(n) == sMax' = n /\ sRet' = [k |-> "unit"] /\ UNCHANGED <<sRecv, sUniv>>
SemSetUniverse(u) == sUniv' = u /\ sRet' = [k |-> "unit"] /\ UNCHANGED <<sMax, sRecv>>

FormsOf(fn, rule) == CASE fn = "Parse" -> {FormVersion, FormTag}
                       [] fn = "ParseVersion" -> {FormVersion}
                       [] fn = "ParseTag" -> {FormTag}
                       [] fn = "DefaultParser" -> IF Bit(rule, 1) THEN {FormVersion} ELSE {FormVersion, FormTag}

SemParse(t, fn, rule) == sRet' = ParseSemRef(t, FormsOf(fn, rule), sMax) /\ UNCHANGED <<sMax, sRecv, sUniv>>

SemUnmarshalText(t) == LET r == ParseSemRef(t, {FormVersion, FormTag}, sMax) IN
                       /\ sRet' = r
                       /\ sRecv' = IF IsOk(r) THEN r.v ELSE sRecv
                       /\ UNCHANGED <<sMax, sUniv>>

\* Ver.Compare(v, w) where the property fixes it; "dep" inside the pinned departure
SemCompare(v, w) == sRet' = (IF VerDeparture(v, w) THEN [k |-> "dep"] ELSE Ok(VerCmp11(v, w)))
                    /\ UNCHANGED <<sMax, sRecv, sUniv>>
=============================================================================
