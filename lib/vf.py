"""Orchestration library for the TLA+ model-based checks of bafko/util.

Pipeline of one check (bin/check <Cxx> <tier>):
  build harness against $VERIF_REPO (default /repo, current working tree, -tags verif)
  MC   : TLC on spec/mc/<module> (specification only; failure = spec error, exit 2)
  TV   : drivers record ndjson traces from the real code; TLC validates every chunk against
         spec/trace/Trace.tla; failed demands come back as (chunk, index, code)
  GRAPH: drivers record complete function graphs; TLC enumerates the domain itself
  MBT  : TLC generates vectors / behaviours from the spec; the harness replays them
  every mismatch is re-executed in isolation (harness replay + TLC on the mini trace);
  reproduced mismatches are filtered through known_findings.json; evidence is written.
Exit codes: 0 property held, 1 VIOLATION, 2 harness / specification error (never a verdict).
"""
import concurrent.futures as cf
import glob
import hashlib
import json
import os
import re
import shutil
import subprocess
import sys
import tempfile
import time

VERIF = os.path.dirname(os.path.dirname(os.path.abspath(__file__)))
REPO = os.environ.get('VERIF_REPO', '/repo')
EVID = os.environ.get('VERIF_EVIDENCE', os.path.join(VERIF, 'evidence'))   # self-tests redirect this
JAR = '/opt/veriftools/tla/tla2tools.jar:/opt/veriftools/tla/CommunityModules-deps.jar'
SPEC = os.path.join(VERIF, 'spec')
NCPU = os.cpu_count() or 4
GOENV = dict(os.environ, GOFLAGS='-mod=mod', GOPROXY='off', GOSUMDB='off', GOTOOLCHAIN='local')


class HarnessError(Exception):
    pass


def log(*a):
    print(*a, flush=True)


# ------------------------------------------------------------------ build

def build_harness(scratch, race=False):
    """Builds harness/ against REPO's working tree with the hooks enabled."""
    modfile = os.path.join(scratch, 'go.mod')
    src = open(os.path.join(VERIF, 'harness', 'go.mod')).read()
    src = re.sub(r'replace go\.lstv\.dev/util => .*', 'replace go.lstv.dev/util => ' + REPO, src)
    open(modfile, 'w').write(src)
    shutil.copy(os.path.join(REPO, 'go.sum'), os.path.join(scratch, 'go.sum'))
    out = os.path.join(scratch, 'harness-race' if race else 'harness')
    cmd = ['go', 'build', '-tags', 'verif', '-modfile', modfile, '-o', out]
    if race:
        cmd.insert(2, '-race')
    cmd.append('.')
    t0 = time.time()
    p = subprocess.run(cmd, cwd=os.path.join(VERIF, 'harness'), env=GOENV, capture_output=True, text=True)
    if p.returncode != 0:
        raise HarnessError('harness build failed (does %s compile?):\n%s' % (REPO, p.stdout + p.stderr))
    log('[build] harness built against %s in %.1fs%s' % (REPO, time.time() - t0, ' (-race)' if race else ''))
    return out


# ------------------------------------------------------------------ TLC

STAT_RE = re.compile(r'(\d+) states generated, (\d+) distinct states found')
DEPTH_RE = re.compile(r'depth of the complete state graph search is (\d+)')


def tlc(module, cfg, scratch, env=None, workers=1, heap='3g', timeout=3600, extra=(), tag=None, gcthreads=2):
    """Runs TLC; returns dict(rc, out, generated, distinct, depth, secs, cmd)."""
    meta = tempfile.mkdtemp(prefix='meta-', dir=scratch)
    cmd = ['java', '-Djava.io.tmpdir=' + meta, '-Xmx' + heap, '-Xss64m', '-XX:+UseParallelGC', '-XX:ParallelGCThreads=%d' % gcthreads, '-XX:CICompilerCount=2',
           '-DTLA-Library=' + ':'.join([SPEC, os.path.join(SPEC, 'trace'), os.path.join(SPEC, 'mc')]),
           '-cp', JAR, 'tlc2.TLC', '-noGenerateSpecTE', '-workers', str(workers), '-metadir', meta,
           '-config', cfg] + list(extra) + [module]
    e = dict(os.environ)
    e.update(env or {})
    t0 = time.time()
    try:
        p = subprocess.run(cmd, cwd=scratch, env=e, capture_output=True, text=True, timeout=timeout)
        rc, out = p.returncode, p.stdout + p.stderr
    except subprocess.TimeoutExpired as ex:
        rc, out = 124, (ex.stdout or b'').decode('utf8', 'replace') if isinstance(ex.stdout, bytes) else (ex.stdout or '')
        out += '\nTLC TIMEOUT after %ds' % timeout
    shutil.rmtree(meta, ignore_errors=True)
    r = dict(rc=rc, out=out, generated=0, distinct=0, depth=0, secs=time.time() - t0,
             cmd=' '.join(cmd[:1] + ['...tlc2.TLC'] + cmd[cmd.index('tlc2.TLC') + 1:]))
    ms = STAT_RE.findall(out)
    if ms:
        r['generated'], r['distinct'] = int(ms[-1][0]), int(ms[-1][1])
    m = DEPTH_RE.search(out)
    if m:
        r['depth'] = int(m.group(1))
    return r


def tail(s, n=40):
    return '\n'.join(s.strip().split('\n')[-n:])


def run_mc(name, scratch, workers=None, timeout=3600, extra=(), env=None, cfg=None, expect_violation=None):
    """Model-checks spec/mc/<name>.tla with <name>.cfg. Any failure is a specification error.
    expect_violation names an invariant that TLC MUST find violated (negative-control models)."""
    mod = os.path.join(SPEC, 'mc', name + '.tla')
    cfgp = os.path.join(SPEC, 'mc', (cfg or name) + '.cfg')
    r = tlc(mod, cfgp, scratch, workers=workers or NCPU, heap='12g', timeout=timeout, extra=extra, env=env, gcthreads=4)
    if expect_violation:
        if ('Invariant %s is violated' % expect_violation) not in r['out']:
            raise HarnessError('negative control %s/%s: TLC did not find the expected violation of %s:\n%s'
                               % (name, cfg or name, expect_violation, tail(r['out'], 30)))
        log('[mc] %-14s negative control: TLC found the expected violation of %s (%d states, %.1fs)'
            % (cfg or name, expect_violation, r['distinct'], r['secs']))
        return r
    if r['rc'] != 0 or 'No error has been found' not in r['out']:
        raise HarnessError('MC %s failed (specification error, not a verdict about the code):\n%s'
                           % (name, tail(r['out'], 60)))
    log('[mc] %-14s %9d states generated, %9d distinct, depth %d, %.1fs'
        % (cfg or name, r['generated'], r['distinct'], r['depth'], r['secs']))
    return r


# ------------------------------------------------------------------ drivers

ZONES = ['America/Santiago', 'America/Havana', 'Asia/Beirut', 'America/Asuncion']


def run_driver(harness, name, tier, seed, outdir, shards=1, per=60000, timeout=3600, extra=(), env=None):
    """Runs `harness drive <name>` as `shards` parallel processes; returns summaries."""
    os.makedirs(outdir, exist_ok=True)
    procs = []
    t0 = time.time()
    for i in range(shards):
        cmd = [harness, 'drive', name, '-tier', tier, '-seed', str(seed), '-out', outdir,
               '-shard', str(i), '-nshards', str(shards), '-per', str(per)] + list(extra)
        # the process environment is part of the context: odd shards run in a time zone whose daylight
        # saving time starts at midnight (local midnight does not exist on that day)
        penv = env
        if i % 2 == 1:
            penv = dict(env if env is not None else os.environ, TZ=ZONES[(i // 2) % len(ZONES)])
        procs.append(subprocess.Popen(cmd, stdout=subprocess.PIPE, stderr=subprocess.PIPE, text=True, env=penv))
    sums = []
    for p in procs:
        try:
            out, err = p.communicate(timeout=timeout)
        except subprocess.TimeoutExpired:
            p.kill()
            raise HarnessError('driver %s timed out' % name)
        if p.returncode != 0:
            i = procs.index(p)
            intent = os.path.join(outdir, '%s-s%02d.intent.json' % (name, i))
            if os.path.exists(intent) and not err.startswith('HARNESS-ERROR'):
                # the runtime aborted the process inside a library call whose request was left behind
                req = json.load(open(intent))['events']
                os.remove(intent)
                first = [l for l in err.split('\n') if l.startswith(('fatal error', 'runtime:', 'panic:', 'signal'))][:2]
                sums.append({'crash': True, 'req': req, 'how': '; '.join(first) or 'exit status %d' % p.returncode,
                             'driver': name, 'shard': i, 'events': 0, 'chunks': 0, 'ops': {},
                             'files': sorted(glob.glob(os.path.join(outdir, '%s-s%02d-*.ndjson' % (name, i))))})
                log('[drive] %s shard %d: the process died inside a call (%s)' % (name, i, sums[-1]['how']))
                continue
            raise HarnessError('driver %s failed rc=%d:\n%s' % (name, p.returncode, tail(out + err)))
        for line in out.split('\n'):
            if line.startswith('DRIVER-SUMMARY '):
                sums.append(json.loads(line[len('DRIVER-SUMMARY '):]))
    tot = sum(s['events'] for s in sums)
    log('[drive] %-10s %9d events in %d chunks, %d shards, %.1fs'
        % (name, tot, sum(s['chunks'] for s in sums), shards, time.time() - t0))
    return sums


def run_conc(harness, name, tier, seed, outdir, goroutines=8, limit=20000, per=60000, timeout=1800, env=None):
    """Runs `harness conc <name>`: the driver's shards run as goroutines of ONE process (default
    configuration), each recording its own trace."""
    os.makedirs(outdir, exist_ok=True)
    t0 = time.time()
    cmd = [harness, 'conc', name, '-tier', tier, '-seed', str(seed), '-out', outdir, '-goroutines', str(goroutines),
           '-limit', str(limit), '-per', str(per)]
    p = subprocess.run(cmd, capture_output=True, text=True, env=env, timeout=timeout)
    if p.returncode != 0:
        intents = sorted(glob.glob(os.path.join(outdir, 'conc-%s-g*.intent.json' % name)))
        if intents and not p.stderr.startswith('HARNESS-ERROR'):
            # a library call panicked in one goroutine: the process ended, the other goroutines' traces are incomplete
            req = json.load(open(intents[0]))['events']
            for f in intents + glob.glob(os.path.join(outdir, 'conc-%s-g*.ndjson' % name)):
                os.remove(f)
            first = [l for l in p.stderr.split('\n') if l.startswith(('fatal error', 'runtime:', 'panic:', 'signal'))][:2]
            log('[conc]  %s: the process died inside a call (%s)' % (name, '; '.join(first)))
            return [{'crash': True, 'req': req, 'how': '; '.join(first) or 'exit status %d' % p.returncode, 'driver': 'conc ' + name,
                     'shard': 0, 'events': 0, 'chunks': 0, 'ops': {}}]
        raise HarnessError('concurrent driver %s failed rc=%d:\n%s' % (name, p.returncode, tail(p.stdout + p.stderr)))
    sums = [json.loads(l[len('DRIVER-SUMMARY '):]) for l in p.stdout.split('\n') if l.startswith('DRIVER-SUMMARY ')]
    log('[conc]  %-10s %9d events from %d goroutines of one process, %.1fs'
        % (name, sum(s['events'] for s in sums), goroutines, time.time() - t0))
    return sums


def reobserve_conc(harness, spec, tier, seed, scratch, code, module='Trace', attempts=3, prefixes=()):
    """A failed demand seen only when calls run concurrently cannot be re-executed call by call: the
    concurrent run is repeated in fresh processes until the same demand fails again."""
    for k in range(attempts):
        d = tempfile.mkdtemp(prefix='conc-again-', dir=scratch)
        run_conc(harness, spec['name'], tier, seed + k, d, goroutines=spec.get('goroutines', 8),
                 limit=spec.get('limit', 20000), per=spec.get('per', 60000))
        files = sorted(glob.glob(os.path.join(d, '*.ndjson')))
        other = None
        for r in validate_all(files, scratch, module=module):
            for (idx, c) in r['bads']:
                if c == code:
                    ev = read_event(r['path'], idx)
                    shutil.rmtree(d, ignore_errors=True)
                    return ev, k + 1
                if other is None and prefixes and any(c.startswith(x) for x in prefixes):
                    other = (read_event(r['path'], idx), c)
        shutil.rmtree(d, ignore_errors=True)
        if other:
            # interference between goroutines shows as different failed demands from run to run
            return dict(other[0], **{'_other_demand': other[1]}), k + 1
    return None, attempts


def count_lines(path):
    n = 0
    with open(path, 'rb') as f:
        for _ in f:
            n += 1
    return n


def validate_chunk(path, scratch, module='Trace', timeout=3600):
    res = path + '.result.json'
    mod = os.path.join(SPEC, 'trace', module + '.tla')
    cfg = os.path.join(SPEC, 'trace', module + '.cfg')
    r = tlc(mod, cfg, scratch, env={'TRACE_FILE': path, 'RESULT_FILE': res}, workers=1, heap='3g', timeout=timeout)
    n = count_lines(path)
    if r['rc'] != 0 or not os.path.exists(res):
        raise HarnessError('trace validation of %s failed to complete (rc=%d):\n%s' % (path, r['rc'], tail(r['out'], 50)))
    out = json.load(open(res))
    if out['n'] != n:
        raise HarnessError('trace %s: TLC consumed %d of %d events' % (path, out['n'], n))
    if r['depth'] != n + 2:
        raise HarnessError('trace %s: diameter %d != events+2 (%d)' % (path, r['depth'], n + 2))
    out.update(path=path, events=n, generated=r['generated'], distinct=r['distinct'], secs=r['secs'])
    return out


def validate_all(files, scratch, module='Trace', jobs=None):
    """Validates chunk files with parallel single-worker TLC processes."""
    jobs = jobs or max(1, min(14, NCPU - 2))
    t0 = time.time()
    results = []
    with cf.ThreadPoolExecutor(max_workers=jobs) as ex:
        futs = [ex.submit(validate_chunk, f, scratch, module) for f in files]
        for fu in futs:
            results.append(fu.result())
    ev = sum(r['events'] for r in results)
    log('[tv] %d chunks, %d events validated by TLC against %s, %d failed demands, %.1fs'
        % (len(files), ev, module, sum(r['nbad'] for r in results), time.time() - t0))
    return results


def read_event(path, index):
    """index is 1-based."""
    with open(path) as f:
        for i, line in enumerate(f, 1):
            if i == index:
                return json.loads(line)
    raise HarnessError('event %d not in %s' % (index, path))


def context_events(path, index):
    """Events needed to re-execute event `index` in a fresh process: the latest configuration
    (*.set) events before it, and for stateful events ("st":1) everything since the last
    *.reset event."""
    sets, hist = {}, []
    target = None
    with open(path) as f:
        for i, line in enumerate(f, 1):
            e = json.loads(line)
            if i == index:
                target = e
                break
            op = e['op']
            if op.endswith('.set') or op.endswith('.univ'):
                sets[op] = e
            elif op.endswith('.reset'):
                hist = [e]
            elif e.get('st'):
                hist.append(e)
    if target is None:
        raise HarnessError('event %d not in %s' % (index, path))
    evs = list(sets.values())
    if target.get('st'):
        evs += hist
    evs.append(target)
    return evs, target


def prefix_events(path, index, whole_shard=False):
    """All events of the chunk up to `index` (1-based, inclusive); with whole_shard also every event
    of the earlier chunks written by the same driver process (state that leaks between calls - caches,
    pools, lazily initialised tables - only shows with the history that preceded the call)."""
    evs = []
    if whole_shard:
        m = re.match(r'(.*-s\d+-)(\d+)\.ndjson$', path)
        if m:
            for k in range(int(m.group(2))):
                q = '%s%04d.ndjson' % (m.group(1), k)
                if os.path.exists(q):
                    with open(q) as f:
                        evs += [json.loads(l) for l in f]
    with open(path) as f:
        for i, line in enumerate(f, 1):
            evs.append(json.loads(line))
            if i == index:
                break
    return evs


# ------------------------------------------------------------------ replay and verdicts

def replay_events(harness, events, scratch, module='Trace', any_event=False):
    """Re-executes events in a fresh process and validates the re-recorded mini trace with TLC.
    Returns (new_events, failed_codes_of_last_event)."""
    rid = hashlib.sha1(json.dumps(events, sort_keys=True).encode()).hexdigest()[:12]
    src = os.path.join(scratch, 'replay-%s.json' % rid)
    out = os.path.join(scratch, 'replay-%s.ndjson' % rid)
    json.dump({'events': events}, open(src, 'w'))
    p = subprocess.run([harness, 'replay', src, out], capture_output=True, text=True, timeout=600, env=dict(os.environ, GOGC='off'))
    if p.returncode != 0:
        raise HarnessError('replay failed: ' + tail(p.stdout + p.stderr))
    r = validate_chunk(out, scratch, module)
    new = [json.loads(x) for x in open(out)]
    # a graph point is re-executed through several events (variants, entry points): any of them counts
    codes = [c for (i, c) in r['bads'] if any_event or i == len(new)]
    return new, codes


def replay_crash(harness, events, scratch):
    """Re-executes events in a fresh process; True if that process dies abnormally again."""
    src = os.path.join(scratch, 'crash-%s.json' % hashlib.sha1(json.dumps(events, sort_keys=True).encode()).hexdigest()[:12])
    json.dump({'events': events}, open(src, 'w'))
    # no garbage collection while re-executing: what the library keeps in pools then stays where the
    # recorded process had it (a collection between two calls is a matter of timing, not of the calls)
    p = subprocess.run([harness, 'replay', src, src + '.out'], capture_output=True, text=True, timeout=1800,
                       env=dict(os.environ, GOGC='off'))
    if p.returncode == 0 or p.stderr.startswith('HARNESS-ERROR'):
        return False, ''
    first = [l for l in p.stderr.split('\n') if l.startswith(('fatal error', 'runtime:', 'panic:', 'signal'))][:2]
    return True, '; '.join(first) or 'exit status %d' % p.returncode


def load_known():
    p = os.path.join(VERIF, 'known_findings.json')
    if not os.path.exists(p):
        return []
    return json.load(open(p)).get('findings', [])


def matches_known(prop, code, event, known):
    for k in known:
        if k.get('status') != 'open' or k['property'] != prop:
            continue
        if 'code' in k and k['code'] != code:
            continue
        ok = True
        for field, want in k.get('match', {}).items():
            if event.get(field) != want:
                ok = False
                break
        if ok:
            return k
    return None


def write_replay_file(prop, code, events, expected_note, concurrent=None):
    d = os.path.join(EVID, 'replays')
    os.makedirs(d, exist_ok=True)
    rid = hashlib.sha1((prop + code + json.dumps(events, sort_keys=True)).encode()).hexdigest()[:12]
    path = os.path.join(d, '%s-%s.json' % (prop, rid))
    doc = {'property': prop, 'demand': code, 'note': expected_note, 'events': events}
    if concurrent:
        doc['concurrent'] = concurrent
    json.dump(doc, open(path, 'w'), indent=1)
    return path


def write_evidence(prop, tier, seed, coverage, wall, violations, assumptions, level='model_checking'):
    d = EVID
    os.makedirs(d, exist_ok=True)
    ev = {'property_id': prop, 'tier': tier, 'seed': seed, 'level': level, 'coverage': coverage,
          'assumptions': assumptions, 'wall_s': round(wall, 2), 'violations': violations}
    json.dump(ev, open(os.path.join(d, prop + '.json'), 'w'), indent=1)


# ------------------------------------------------------------------ graph leg (TLC enumerates)

MISMATCH_RE = re.compile(r'<<"GRAPH-MISMATCH", (.*)>>\s*$', re.M)


def parse_tla_value(txt):
    """Parses the small subset of TLA+ values TLC prints for mismatches: <<..>>, ints, strings,
    TRUE/FALSE."""
    txt = txt.replace('<<', '[').replace('>>', ']').replace('TRUE', 'true').replace('FALSE', 'false')
    return json.loads(txt)


def graph_leg(name, module, tier_env, to_events, what, workers=8, mc_module=None, mc_env=None):
    """Returns a leg: records the function graph `name` from the real code, lets TLC enumerate the
    same domain (spec/mc/<module>) and turns every disagreement into replayable events."""
    def leg(ctx):
        scratch, tier = ctx['scratch'], ctx['tier']
        env = dict(tier_env.get(tier, tier_env['quick']))
        gfile = os.path.join(scratch, name + '.json')
        t0 = time.time()
        p = subprocess.run([ctx['harness'], 'graph', name, tier, gfile], capture_output=True, text=True, timeout=7200)
        if p.returncode != 0:
            raise HarnessError('graph driver %s failed: %s' % (name, tail(p.stdout + p.stderr)))
        summ = None
        for line in p.stdout.split('\n'):
            if line.startswith('GRAPH-SUMMARY '):
                summ = json.loads(line[len('GRAPH-SUMMARY '):])
        log('[graph] %-8s real code: %d points, %d accepted, %d anomalies, %.1fs'
            % (name, summ['total'], summ['accepted'], summ['anomalies'], time.time() - t0))
        env['GRAPH_FILE'] = gfile
        states = trans = 0
        mod = os.path.join(SPEC, 'mc', module + '.tla')
        cfg = os.path.join(SPEC, 'mc', module + '.cfg')
        # the spec-only laws (mc_module) and the graph comparison enumerate the same domain: run them side by side
        with cf.ThreadPoolExecutor(max_workers=2) as ex:
            env0 = dict(env, **(mc_env or {}).get(tier, {}))
            f0 = ex.submit(run_mc, mc_module, scratch, workers, 7200, (), env0) if mc_module else None
            f1 = ex.submit(tlc, mod, cfg, scratch, env, workers, '12g', 7200, (), None, 4)
            r = f1.result()
            if f0:
                r0 = f0.result()
                states += r0['distinct']
                trans += r0['generated']
        if r['rc'] != 0 or 'No error has been found' not in r['out']:
            raise HarnessError('graph check %s did not complete:\n%s' % (module, tail(r['out'], 50)))
        if r['distinct'] != summ['total']:
            raise HarnessError('graph %s incomplete: TLC enumerated %d points, the driver %d'
                               % (name, r['distinct'], summ['total']))
        mism = [parse_tla_value(m) for m in MISMATCH_RE.findall(r['out'])]
        log('[graph] %-8s TLC enumerated %d points (= driver total), %d disagreements, %.1fs'
            % (module, r['distinct'], len(mism), r['secs']))
        bads = []
        for m in mism[:400]:
            evs, code = to_events(m)
            bads.append((code, evs, 'graph point %s' % json.dumps(m)))
        part = {'kind': 'graphs', 'states': states + r['distinct'], 'transitions': trans + r['generated'], 'traces': 1,
                'info': {'graph': name, 'module': module, 'points': summ['total'], 'accepted_by_code': summ['accepted'],
                         'anomalies': summ['anomalies'], 'disagreements': len(mism), 'domain': summ['domain'],
                         'complete': True, 'what': what, 'secs': round(r['secs'], 1)},
                'samples': [{'graph_point_accepted_by_code': json.load(open(gfile))['accepted'][:1]}]}
        return part, bads
    return leg


def apalache_leg(module, inv, length, what, init=None):
    """An Apalache lemma over unbounded integers on spec/apalache/<module>.tla. A failure is a
    specification error (exit 2), never a verdict about the code."""
    def leg(ctx):
        scratch = ctx['scratch']
        d = tempfile.mkdtemp(prefix='apalache-', dir=scratch)
        shutil.copy(os.path.join(SPEC, 'apalache', module + '.tla'), d)
        t0 = time.time()
        cmd = ['apalache-mc', 'check', '--length=%d' % length, '--inv=' + inv, '--out-dir=' + os.path.join(d, 'out')]
        if init:
            cmd.append('--init=' + init)
        cmd.append(module + '.tla')
        try:
            p = subprocess.run(cmd, cwd=d, capture_output=True, text=True, timeout=900,
                               env=dict(os.environ, JVM_ARGS='-Xmx4g -Djava.io.tmpdir=' + d))
        except subprocess.TimeoutExpired:
            raise HarnessError('apalache timed out on %s' % module)
        out = p.stdout + p.stderr
        if 'The outcome is: NoError' not in out:
            raise HarnessError('apalache did not prove %s!%s:\n%s' % (module, inv, tail(out, 30)))
        log('[apalache] %s!%s holds (%s) %.1fs' % (module, inv, what, time.time() - t0))
        return ({'kind': 'mbt', 'info': {'apalache': '%s.tla --init=%s --inv=%s --length=%d' % (module, init or 'Init', inv, length), 'what': what,
                                         'outcome': 'NoError', 'secs': round(time.time() - t0, 1)}}, [])
    return leg


def tlaps_leg(module, what):
    """A TLAPS proof (spec/tlaps/<module>.tla): every obligation must be proved. A failure is a
    specification error (exit 2), never a verdict about the code."""
    def leg(ctx):
        d = tempfile.mkdtemp(prefix='tlaps-', dir=ctx['scratch'])
        shutil.copy(os.path.join(SPEC, 'tlaps', module + '.tla'), d)
        t0 = time.time()
        try:
            p = subprocess.run(['tlapm', '--threads', '4', '--cleanfp', module + '.tla'], cwd=d, capture_output=True, text=True, timeout=900,
                               env=dict(os.environ, TMPDIR=d))
        except subprocess.TimeoutExpired:
            raise HarnessError('tlapm timed out on %s' % module)
        out = p.stdout + p.stderr
        m = re.search(r'All (\d+) obligations? proved', out)
        if p.returncode != 0 or not m:
            raise HarnessError('tlapm did not prove %s:\n%s' % (module, tail(out, 30)))
        log('[tlaps] %s: all %s obligations proved (%s) %.1fs' % (module, m.group(1), what, time.time() - t0))
        return ({'kind': 'mbt', 'info': {'tlaps': module + '.tla', 'obligations_proved': int(m.group(1)), 'what': what,
                                         'secs': round(time.time() - t0, 1)}}, [])
    return leg


def apalache_masks_leg(ctx):
    return apalache_leg('Masks', 'Inv', 1, 'RandomID masks for all pairs of 63-bit draws')(ctx)


def _unused_old_masks_leg(ctx):

    """C19: the mask lemma of RandomID for all pairs of 63-bit draws, discharged by Apalache
    (unbounded integers) on spec/apalache/Masks.tla. A failure is a specification error."""
    scratch = ctx['scratch']
    d = tempfile.mkdtemp(prefix='apalache-', dir=scratch)
    shutil.copy(os.path.join(SPEC, 'apalache', 'Masks.tla'), d)
    t0 = time.time()
    cmd = ['apalache-mc', 'check', '--length=1', '--inv=Inv', '--out-dir=' + os.path.join(d, 'out'), 'Masks.tla']
    try:
        p = subprocess.run(cmd, cwd=d, capture_output=True, text=True, timeout=600,
                           env=dict(os.environ, JVM_ARGS='-Xmx4g -Djava.io.tmpdir=' + d))
    except subprocess.TimeoutExpired:
        raise HarnessError('apalache timed out on Masks.tla')
    out = p.stdout + p.stderr
    if 'The outcome is: NoError' not in out:
        raise HarnessError('apalache did not prove the mask lemma:\n' + tail(out, 30))
    log('[apalache] Masks.tla: Inv holds for all pairs of 63-bit draws (%.1fs)' % (time.time() - t0))
    return ({'kind': 'mbt', 'info': {'apalache': 'Masks.tla Inv, --length=1, all a,b in 0..2^63-1', 'outcome': 'NoError',
                                     'secs': round(time.time() - t0, 1)}}, [])
