import json, shutil, sys, tempfile
import vf


def main():
    doc = json.load(open(sys.argv[1]))
    scratch = tempfile.mkdtemp(prefix='verif-replay-')
    try:
        h = vf.build_harness(scratch)
        if doc.get('concurrent'):
            c = doc['concurrent']
            ev, tries = vf.reobserve_conc(h, dict(c, name=c['driver']), c.get('tier', 'quick'), c.get('seed', 1), scratch, doc['demand'], attempts=5,
                                          prefixes=[doc.get('property', '') + '.'])
            if ev is not None:
                print('observed again (concurrent run %d):' % tries, json.dumps(ev))
                print('REPRODUCED property=%s failed demands of the specification: %s' % (doc.get('property'), doc['demand']))
                return 1
            print('not reproduced: demand %s held in %d fresh concurrent runs' % (doc['demand'], tries))
            return 0
        if doc.get('demand', '').endswith('.crash'):
            again, how = vf.replay_crash(h, doc['events'], scratch)
            if again:
                print('REPRODUCED property=%s the process died inside the call again: %s' % (doc.get('property'), how))
                return 1
            print('not reproduced: the call returned')
            return 0
        new, codes = vf.replay_events(h, doc['events'], scratch)
        print('re-executed event:', json.dumps(new[-1]))
        if codes:
            print('REPRODUCED property=%s failed demands of the specification: %s' % (doc.get('property'), ', '.join(codes)))
            return 1
        print('not reproduced: every demand of the specification holds for the re-executed events')
        return 0
    except vf.HarnessError as e:
        print('HARNESS-ERROR: %s' % e)
        return 2
    finally:
        shutil.rmtree(scratch, ignore_errors=True)


sys.exit(main())
