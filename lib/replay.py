import json, shutil, sys, tempfile
import vf


def main():
    doc = json.load(open(sys.argv[1]))
    scratch = tempfile.mkdtemp(prefix='verif-replay-')
    try:
        h = vf.build_harness(scratch)
        new, codes = vf.replay_events(h, doc['events'], scratch)
        print('re-executed event:', json.dumps(new[-1]))
        if codes:
            print('REPRODUCED property=%s failed demands of the specification: %s' % (doc.get('property'), ', '.join(codes)))
            return 1
        print('not reproduced: every demand of the specification holds for the re-executed events')
        return 0
    except vf.HarnessError as e:
        print('HARNESS-ERROR: %s' % e)
        return 2
    finally:
        shutil.rmtree(scratch, ignore_errors=True)


sys.exit(main())
