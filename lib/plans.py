"""Per-property plans: which MC modules, drivers, demand codes and extra legs decide a property."""

NOT_APPLICABLE = {}
HOOK_COMMITS = ['244a30cf57b73351f8a2bb5eb3a70ee79ddc8b99']

COMMON_ASSUMPTIONS = [
    'TLC 1.8 evaluates the specification faithfully; the Json community module parses the ndjson traces '
    '(the trace encoder refuses values it would mangle: non-int32 numbers, fractions, null)',
    'the harness calls the public API of the code built from $VERIF_REPO (default /repo working tree) and logs '
    'arguments and observations without interpreting them; verdicts are taken by TLC only',
]

import vf


def g09_events(s):
    return ([{'op': 'date.set', 'max': 0}, {'op': 'date.parse', 'in': s, 'rule': 0, 'T': 's'}], None)


def g10_events(s):
    return ([{'op': 'roman.set', 'max': 128, 'fmt': 0}, {'op': 'roman.parse', 'in': s, 'rule': 0, 'T': 's'},
             {'op': 'roman.parse', 'in': [c + 32 for c in s], 'rule': 0, 'T': 's'},
             {'op': 'roman.parse', 'in': [c + 32 if i % 2 else c for i, c in enumerate(s)], 'rule': 0, 'T': 'b'}], None)


def g03_events(s):
    evs = [{'op': 'sem.set', 'max': 1024}]
    for fn, rule in (('Parse', 0), ('ParseVersion', 0), ('ParseTag', 0), ('DefaultParser', 0), ('DefaultParser', 1)):
        for T in ('s', 'b'):
            evs.append({'op': 'sem.parse', 'in': s, 'fn': fn, 'rule': rule, 'T': T})
    return (evs, None)


def race_leg(ctx):
    """C19: data-race reports of the Go race detector (the harness is built with -race) are direct
    evidence from the real code; each report becomes a violation of demand C19.race."""
    import glob as _g, os as _o
    reports = []
    for f in sorted(_g.glob(_o.path.join(ctx['scratch'], 'race-report*'))):
        txt = open(f, errors='replace').read()
        if 'DATA RACE' in txt:
            reports.append(txt[:4000])
    bads = [('C19.race', [{'op': 'r.reset', 'goroutines': 0, 'procs': 0, 'yield': False, 'st': 1, 'race_report': r}], 'race detector report') for r in reports[:3]]
    return ({'kind': 'mbt', 'info': {'race_detector_reports': len(reports), 'built_with': 'go build -race -tags verif'}}, bads)


def gen_c20_vectors(ctx):
    """C20, spec -> code: TLC enumerates the test-case programs (spec/mc/MBT_C20.tla) and writes them
    as ndjson vectors; the c20 driver instantiates and runs each one on the real helpers."""
    import os as _o
    vec = _o.path.join(ctx['scratch'], 'c20-vectors.ndjson')
    r = vf.run_mc('MBT_C20', ctx['scratch'], workers=1, env={'VEC_FILE': vec, 'MBT_TIER': ctx['tier']})   # constants are evaluated once per worker
    n = vf.count_lines(vec)
    vf.log('[mbt] MBT_C20: TLC generated %d programs' % n)
    ctx['env']['VERIF_VEC'] = vec
    return {'states': r['distinct'], 'transitions': r['generated'],
            'info': {'module': 'MBT_C20', 'programs_generated_by_tlc': n, 'laws_checked_on_states': r['distinct']}}


def gen_util_behaviours(ctx):
    """Whole-system MBT: TLC simulates Util.tla (the composition of the five package machines) and
    prints behaviours through the history variable; a seeded sample is replayed on the real code by
    the util driver and the recorded events are validated by Trace.tla like any other trace."""
    import os as _o, random as _r, re as _re
    n, take, depth = (300, 500, 10) if ctx['tier'] == 'quick' else (4000, 6000, 14)
    mod = _o.path.join(vf.SPEC, 'mc', 'MC_Util.tla')
    cfg = _o.path.join(vf.SPEC, 'mc', 'MC_Util_sim.cfg')
    r = vf.tlc(mod, cfg, ctx['scratch'], env={'UTIL_DEPTH': str(depth)}, workers=1, heap='8g', timeout=3600,
               extra=['-simulate', 'num=%d' % n, '-depth', str(depth + 1), '-seed', str(ctx['seed'])])
    if 'Error' in r['out'] and 'BEHAVIOUR' not in r['out']:
        raise vf.HarnessError('Util simulation failed:\n' + vf.tail(r['out'], 30))
    behs = sorted(set(_re.findall(r'<<"BEHAVIOUR", "(.*)">>', r['out'])))
    if not behs:
        raise vf.HarnessError('Util simulation produced no behaviour:\n' + vf.tail(r['out'], 30))
    _r.Random(ctx['seed']).shuffle(behs)
    path = _o.path.join(ctx['scratch'], 'util-behaviours.ndjson')
    with open(path, 'w') as f:
        for b in behs[:take]:
            f.write(b.replace('\\"', '"') + '\n')
    ctx['env']['VERIF_BEH'] = path
    vf.log('[mbt] MC_Util: TLC simulated %d traces of depth %d, %d distinct behaviours exported, %d replayed'
           % (n, depth, len(behs), min(take, len(behs))))
    return {'states': 0, 'transitions': 0,
            'info': {'module': 'Util (MC_Util_sim.cfg)', 'simulated_traces': n, 'depth': depth, 'distinct_behaviours': len(behs),
                     'replayed': min(take, len(behs))}}


UTIL_MC = {'module': 'MC_Util', 'what': 'composition of the five package machines, all interleavings to a small depth: Isolation, KeepOnFail, TypeOK',
           'tiers': {'quick': {'env': {'UTIL_DEPTH': '3'}}, 'thorough': {'env': {'UTIL_DEPTH': '4'}}}}


CAL_LEMMA = vf.apalache_leg('CalendarLemma', 'Inv', 0, 'Ordinal(next day) = Ordinal + 1, year brackets, binary year bytes round trip, for every year in +-999 999 999')


CONC_MC = {'module': 'MC_Conc', 'what': 'Conc: 3 goroutines x 2 calls x 3 arguments, every interleaving of Begin/End steps: with private working storage each goroutine\'s history is sequential (PerGoroutineSequential), calls do not interfere, all calls complete'}
CONC_MC_NEG = {'module': 'MC_Conc', 'cfg': 'MC_Conc_shared', 'expect_violation': 'PerGoroutineSequential',
               'what': 'negative control: with package-level working storage TLC finds a result computed from another goroutine\'s argument'}

MEMO_MC = [{'module': 'MC_Memo', 'cfg': 'MC_Memo_none', 'what': 'Memo: one caller buffer refilled between calls, byte and string parses, up to 4 calls: a library that remembers nothing returns what each argument means'},
           {'module': 'MC_Memo', 'cfg': 'MC_Memo_copy', 'what': 'Memo: remembering the last input by COPY is still correct for every history'},
           {'module': 'MC_Memo', 'cfg': 'MC_Memo_alias', 'expect_violation': 'ResultIsOfArgument',
            'what': 'negative control: remembering the caller\'s own slice returns the previous result after a refill (the behaviour the reuse / twin2 scenarios of the harness look for)'}]
LAZY_MC = [{'module': 'MC_Lazy', 'cfg': 'MC_Lazy_read', 'what': 'Lazy: configuration changed between calls, up to 3 calls: a library that reads the package variables at every call behaves according to the configuration in force'},
           {'module': 'MC_Lazy', 'cfg': 'MC_Lazy_rederive', 'what': 'Lazy: deriving something from the configuration is still correct when it is derived again after a change'},
           {'module': 'MC_Lazy', 'cfg': 'MC_Lazy_frozen', 'expect_violation': 'ConfigInForce',
            'what': 'negative control: what was derived at first use and kept makes a later call behave as under the first configuration (the behaviour the per-process prologue of the harness produces)'}]
CONC_PROOF = vf.tlaps_leg('ConcProof', 'Conc with private working storage, ANY number of goroutines, arguments and calls: every goroutine\'s own history is sequential (inductive invariant, TLAPS)')

def CONC(name):
    """The schedule dimension: the driver's shards as goroutines of one process (default configuration).
    Calls of a value library must not disturb one another, so every goroutine's own trace has to be a
    behaviour of the sequential specification (spec/Conc.tla states why that is the right demand)."""
    return {'name': name, 'conc': True, 'goroutines': 8, 'limit': 6000, 'tiers': {'thorough': {'limit': 40000}}}


PLANS = {
    'C01': {
        'level_text': 'Bounded-exhaustive on the specification (18 boundary years x every day x 2 formats x 8 limits; Apalache lemma on Ordinal for all years) plus TLC trace validation of one event per date carrying all 10 output paths and 10 input-path results; thorough covers all 3,652,425 dates of 0000-9999 as a day-consecutive chain. Model checking is the right level: the property is a universally quantified equation between a constructive formatter and a declarative parser, and the finite calendar can be enumerated completely.',
        'mc': [{'module': 'MC_C01', 'what': '18 boundary years x every day x {ext,basic} x 8 limits: Parse(Fmt(d)) = d, canonical shape, Ordinal counts days'}],
        'drivers': [{'name': 'c01', 'shards': 8, 'tiers': {'thorough': {'shards': 16}}}, CONC('c01'), {'name': 'ovr', 'shards': 1}],
        'legs': [CAL_LEMMA],
        'codes': ['C01.'],
        'exhaustive': {'thorough': True},
        'rule': 'one date.rt event per date: 10 output paths and 10 input-path results judged by TLC against FmtDate/ParseDateRef; '
                'quick = all days of 60 boundary years + 4-16 days of every year 0000-9999 + 5-9 digit years under 6 limits; '
                'thorough = every day of 0000-9999 as a day-consecutive chain (H.chain demand) + long years',
        'assumptions': COMMON_ASSUMPTIONS,
    },
    'C09': {
        'level_text': 'Complete function graph: TLC enumerates ~4 M (thorough ~20 M) strings over {0,1,2,3,9,-}, evaluates the declarative date language and looks each point up in the recorded graph of DefaultParser; MM x DD grids in 4 separator layouts, all 256 byte values at every position of valid texts, rule x limit x type sweeps by trace validation.',
        'mc': [],
        'legs': [vf.graph_leg('g09', 'Graph_C09', {'quick': {'GRAPH_MAXLEN': '8'}, 'thorough': {'GRAPH_MAXLEN': '9'}}, g09_events,
                              'every string over {0,1,2,3,9,-} up to length 8 (thorough 9) + extensions of "20" to length 10: '
                              'accepted <=> in DateLang with a real day, value = written components; MC_C09 checks the laws of the spec on the same domain',
                              mc_module='MC_C09')],
        'drivers': [{'name': 'c09', 'shards': 8}, CONC('c09')],
        'codes': ['C09.'],
        'exhaustive': {'quick': True, 'thorough': True},
        'rule': 'graph: complete enumeration by TLC, looked up in the recorded graph of DefaultParser[string]; '
                'events: years x MM x DD grids in 4 separator layouts, all 256 byte values at every position of valid texts, '
                'insertions/deletions/truncations, rule x MaxInputLength x {string,[]byte} sweeps',
        'assumptions': COMMON_ASSUMPTIONS,
    },
    'C11': {
        'level_text': "Decoder strictness model-checked over all 65,536 (month, day) bytes x 6 years x versions x lengths; Apalache proves the year-byte round trip for all years; real code judged on encode+decode of every date of a year range (thorough -400..9999), the decode grid, every century year's month ends, versions, lengths, random bytes, and stability of the encoding when the caller overwrites a returned slice.",
        'mc': [{'module': 'MC_C11', 'what': 'all 65536 (month,day) bytes x 6 years x versions x lengths: decode is strict; Decode(Encode(d)) = d'}],
        'drivers': [{'name': 'c11', 'shards': 8}, CONC('c11')],
        'legs': [CAL_LEMMA],
        'codes': ['C11.'],
        'rule': 'date.bin events (layout + round trip) and date.unbin events (receiver pre/post state) judged by TLC against BinEncode/BinDecodeRef',
        'assumptions': COMMON_ASSUMPTIONS,
    },
    'C07': {
        'level_text': 'Order/arithmetic laws model-checked on boundary dates; Apalache proves Ordinal(next day) = Ordinal + 1 for all years; real code judged on every adjacent pair (thorough: of the whole calendar), all pairs of a boundary set, Add grids incl. every single-component step from every month end of 60 boundary years, AddDuration around multiples of 24 h, Time/FromTime over 16 zones.',
        'mc': [{'module': 'MC_C07', 'what': 'order laws, Ordinal monotone, Normalize idempotent on boundary years'}],
        'drivers': [{'name': 'c07', 'shards': 8, 'tiers': {'thorough': {'shards': 16}}}, CONC('c07')],
        'legs': [CAL_LEMMA],
        'codes': ['C07.'],
        'rule': 'date.cmp / add / adddur / time / fromtime events judged by TLC against Calendar (Lt, Ord, AddYMD, Civil)',
        'assumptions': COMMON_ASSUMPTIONS,
    },
    'C15': {
        'level_text': "The filter state machine (caller variables, build, probe) is model-checked exhaustively over a window crossing leap day, month end and year end, with a history variable proving that filters keep build-time bounds and that the five implementation shapes equal the interval predicate; the real code is stepped through the same histories (all bound pairs of a 60-date window x every probe, mutation of the caller's variables after construction).",
        'mc': [{'module': 'MC_C15', 'what': 'filter state machine: build, mutate caller variables, probe; inclusive-interval invariant'}],
        'drivers': [{'name': 'c15', 'shards': 8}],

        'codes': ['C15.'],
        'rule': 'histories freset/vars/fbuild/vars/fcontains* replayed against the Date state machine (filters capture bounds at build time)',
        'assumptions': COMMON_ASSUMPTIONS,
    },
    'C02': {
        'level_text': 'Specification checked for every n <= 1999 (thorough 4999) x 128 flag sets (formatter by rule vs two parser definitions); real code judged by TLC on one event per n holding the outputs, parse-backs and Valid results of all 128 flag subsets; thorough covers every n in [0,130000]. Complete enumeration of the stated quantifier, hence model checking.',
        'mc': [{'module': 'MC_C02', 'what': 'n <= NMax x 128 flag sets: RomanValue(FmtRoman(n,f)) = n by both parser definitions, canonical form laws',
                'tiers': {'quick': {'env': {'MC_NMAX': '1999'}}, 'thorough': {'env': {'MC_NMAX': '4999'}}}}],
        'drivers': [{'name': 'c02', 'shards': 8, 'per': 4000, 'tiers': {'thorough': {'shards': 16, 'per': 3000}}}, CONC('c02'), {'name': 'ovr', 'shards': 1}],
        'codes': ['C02.'],
        'exhaustive': {'thorough': True},
        'rule': 'roman.fmtall: one event per n with the outputs, parse-backs and Valid results of all 128 flag subsets, judged against '
                'FmtRoman (by rule) and ParseRomanRef; roman.paths: MarshalText/String/%R %r %L %l %s under every DefaultFormat. '
                'quick = all n <= 4000 + boundary tails at every thousand up to 131 999; thorough = all n in [0,130000]',
        'assumptions': COMMON_ASSUMPTIONS,
    },
    'C10': {
        'level_text': 'Complete function graph over every letter string up to length 7 (thorough 8) with case variants, []byte, Valid, UnmarshalText compared (anomalies must be empty); two parser definitions agree and the parse is unambiguous (MC); foreign bytes, case patterns, limits by trace validation.',
        'legs': [vf.graph_leg('g10', 'Graph_C10', {'quick': {'GRAPH_MAXLEN': '7'}, 'thorough': {'GRAPH_MAXLEN': '8'}}, g10_events,
                              'every string over {I,V,X,L,C,D,M} up to length 7 (thorough 8): accepted <=> in the group language, value = sum of groups; '
                              'lower/mixed case, []byte, Valid, UnmarshalText agree (anomalies empty); MC_C10: two parser definitions agree, parse unambiguous',
                              mc_module='MC_C10', mc_env={'quick': {'GRAPH_MAXLEN': '6'}})],
        'drivers': [{'name': 'c10', 'shards': 8}, CONC('c10')],
        'codes': ['C10.'],
        'exhaustive': {'quick': True, 'thorough': True},
        'rule': 'graph: complete enumeration by TLC; events: all 256 byte values at every position of valid numerals, insertions, all case patterns, '
                'grammar-directed numerals in random case, random letter strings, limit and rule sweeps, string/[]byte, Valid alongside the parser',
        'assumptions': COMMON_ASSUMPTIONS,
    },
    'C05': {
        'level_text': 'Specification: positional parser = declarative variant reading for every position x 26 boundary bytes x 4 rules x 4 text forms; real code: every nibble value at every position, all 256 byte values at each of the 36/45 positions, insertions, deletions, limits, accessors, judged by TLC. The single-position sweeps of the property are enumerated completely.',
        'mc': [{'module': 'MC_C05', 'what': '3 background IDs x 4 text forms x every position x 26 boundary bytes x 4 rules: positional parser = declarative variant reading; round trips'}],
        'drivers': [{'name': 'c05', 'shards': 8}, CONC('c05'), {'name': 'ovr', 'shards': 1}],
        'codes': ['C05.'],
        'rule': 'uu.fmt: all output paths + accessors + 12 parse-backs per ID (every nibble value at every position, single-bit flips, random); '
                'uu.parse: all 256 byte values at each of the 36/45 positions, insertions, deletions, x 4 rules x {string,[]byte}, limits',
        'assumptions': COMMON_ASSUMPTIONS,
    },
    'C03': {
        'level_text': 'Complete function graph: TLC enumerates every string over 9 symbols up to length 6 (thorough 7), evaluates the BNF twice (split-based and scanner) and compares acceptance mask and value of 5 entry points x string/[]byte with the graph recorded from the code; grammar-generated and mutated long versions and the Valid<=>round-trip link by trace validation. Exhaustive within the bound, sampled beyond it.',
        'legs': [vf.graph_leg('g03', 'Graph_C03', {'quick': {'GRAPH_MAXLEN': '6'}, 'thorough': {'GRAPH_MAXLEN': '7'}}, g03_events,
                              'every string over {0,1,9,a,Z,-,.,+,v} up to length 6 (thorough 7) x 5 entry points x {string,[]byte} + UnmarshalText: '
                              'acceptance mask and value = SemVer grammar with form gating; MC_C03: split-based grammar = scanner, accepted text reproduced by formatting',
                              mc_module='MC_C03')],
        'drivers': [{'name': 'c03', 'shards': 8, 'per': 20000}, CONC('c03'), {'name': 'ovr', 'shards': 1}],
        'codes': ['C03.'],
        'exhaustive': {'quick': True, 'thorough': True},
        'rule': 'graph: complete enumeration by TLC; events: grammar-generated versions with 1-25 digit numbers (both sides of 2^64-1), long identifier lists, '
                'mutations, boundary corpus, through 5 entry points; sem.valid: Ver values with arbitrary pre/build for Valid <=> round trip',
        'assumptions': COMMON_ASSUMPTIONS,
    },
    'C06': {
        'level_text': 'The section-11 order is model-checked as a total order on the universe of all valid pre-release strings up to length 2 (thorough 3) including transitivity over all triples and the SemVer example chain; the real comparator is judged on ALL ordered pairs of the universe up to length 3 + hand-picked identifiers (thorough: length 4, 11.5 M pairs) through every entry point, outside the pinned departure class only.',
        'mc': [{'module': 'MC_C06', 'what': 'section-11 order on the universe U_K: total order laws incl. transitivity over all triples, SemVer example chain, departure class symmetric',
                'tiers': {'quick': {'env': {'MC_K': '2'}}, 'thorough': {'env': {'MC_K': '3'}}}}],
        'drivers': [{'name': 'c06', 'shards': 8, 'per': 3000}],

        'codes': ['C06.'],
        'exhaustive': {'quick': True, 'thorough': True},
        'rule': 'sem.row: one event per left operand of the universe (U_3 + hand-picked identifiers quick, U_4 thorough) holding Ver.Compare against every right operand, both directions, and Latest; '
                'sem.cmp: cores with 2^64-1 boundaries x pre-releases x build metadata through Ver.Compare, Compare, CompareVersion, CompareTag, Ver.Latest, Latest*; verdict outside the departure class only',
        'assumptions': COMMON_ASSUMPTIONS,
    },
    'C14': {
        'level_text': 'Coherence laws (sign, antisymmetry, reflexivity, build ignored, equal => 0, latest never the lower, helpers = compare of parsed values and error iff a text is invalid for the helper, Next* strictly above and panic iff 2^64-1) judged by TLC on all ordered pairs of the universe in both directions, full-range cores incl. differences of exactly 2^63, raw-text helper pairs incl. identical invalid operands.',
        'mc': [{'module': 'MC_C06', 'what': 'order laws of the reference comparison (shared with C06)',
                'tiers': {'quick': {'env': {'MC_K': '2'}}, 'thorough': {'env': {'MC_K': '3'}}}}],
        'drivers': [{'name': 'c06', 'shards': 8, 'per': 3000}, {'name': 'c14', 'shards': 4}, CONC('c14')],
        'codes': ['C14.'],
        'rule': 'the C06 rows and pairs judged for coherence only (sign, antisymmetry, reflexivity, build ignored, equal => 0, latest never the lower, helpers = compare of parsed values, error iff invalid), '
                'including the mixed identifiers C06 excludes; sem.next: NextMajor/Minor/Patch on 11^3 boundary cores and every universe element (panic iff component = 2^64-1, plain release strictly above)',
        'assumptions': COMMON_ASSUMPTIONS,
    },
    'C04': {
        'level_text': 'TLC judges one event per (size, switch configuration) with every marshal form and every unmarshal path; the outputs must also mean the size under the SPECIFIED grammar (BigDec exact arithmetic), so mutually compensating formatter/parser errors are caught. Values are stratified (all 64 trailing-zero counts, 20 decimal lengths, unit neighbourhoods, all n < 2^12 / 2^20) x 8 configurations.',
        'mc': [{'module': 'MC_Size', 'what': 'BigDec homomorphism; Shorten exact and maximal; renderings parse back under the text grammar; unit products; separators never change the value'}, CONC_MC],
        'drivers': [{'name': 'c04', 'shards': 8, 'per': 8000, 'tiers': {'thorough': {'shards': 16}}}, CONC('c04')],
        'codes': ['C04.'],
        'rule': 'size.marshal: one event per (size, switch configuration): MarshalText/MarshalJSON/String/PrettyString outputs, UnmarshalText/UnmarshalJSON/struct/slice/map/DefaultParser '
                'results; demands: every path returns the size AND the output means the size under the SPECIFIED grammar. Values: all 64 trailing-zero counts, 20 decimal lengths, '
                'neighbourhoods of 1000^k, 1024^k, 2^k, 2^64-1, all n < 2^12 (thorough 2^20), seeded random; x 8 switch configurations',
        'assumptions': COMMON_ASSUMPTIONS,
    },
    'C13': {
        'level_text': 'Shorten exactness and maximality and the grouping shape model-checked on odd x 2^k for every k; real code judged on all n < 2^14 (thorough 2^20), strata and random values for Shorten, String, PrettyString, PrettyHTML with BigDec-exact expectations. The renderings are also observed under all eight switch configurations, kept while other sizes are rendered, and after an overridden Formatter was restored.',
        'mc': [{'module': 'MC_Size', 'what': 'Shorten exact and maximal, grouping in threes from the right, on odd x 2^k for every k and boundary values'}],
        'drivers': [{'name': 'c13', 'shards': 8, 'per': 8000, 'tiers': {'thorough': {'shards': 16}}}, CONC('c13'), {'name': 'ovr', 'shards': 1}],
        'codes': ['C13.'],
        'rule': 'size.marshal events judged against Shorten / FmtSize (BigDec): Shorten value and unit, exact product, String, PrettyString, PrettyHTML, DefaultFormatter(FormatHTML); '
                'all n < 2^14 (thorough 2^20) + strata + seeded random',
        'assumptions': COMMON_ASSUMPTIONS,
    },
    'C08': {
        'level_text': 'Exact BigDec arithmetic in the specification (unit laws model-checked); real code judged on text parsing around floor((2^64-1)/multiplier) for all 18 units, every separator placement of the grammar, New over 18 numeric kinds with exact classes from math/big, Bytes over 18 kinds at mantissa and type boundaries.',
        'mc': [{'module': 'MC_Size', 'what': 'for every unit: accepted <=> value x multiplier < 2^64, zero-only units, separators never change the value, RuleDisableUnit'}],
        'drivers': [{'name': 'c08', 'shards': 8, 'per': 20000}, CONC('c08')],
        'codes': ['C08.'],
        'rule': 'size.parse (text mode): for each of the 18 units (+ unknown units) every value within +-60 (thorough +-1000) of floor((2^64-1)/mult) and of 0, powers, random, 21-27 digit numbers; '
                'grammar-generated texts with every separator placement; size.new over 18 numeric kinds/derived types with boundary, negative, fractional, NaN, Inf values (class computed with math/big); '
                'size.bytes over 18 kinds at type maxima and float mantissa boundaries; constraint.kind tables',
        'assumptions': COMMON_ASSUMPTIONS + ['the class (integer / negative / fraction / NaN / Inf) and digits of a Go numeric argument are computed by the harness with math/big'],
    },
    'C12': {
        'level_text': 'Two-layer specification: Ref (outcome as a function of the multiset of members) is order independent by construction and checked under all adjacent transpositions; Impl (the key loop) refines Ref for every object of <= 3 (thorough 4) members x 8 rules x 5 limits; real code judged against Ref on generated documents incl. every truncation and trailing bytes, with the abstract document derived by encoding/json.',
        'mc': [{'module': 'MC_C12', 'what': 'all objects of <= 3 (thorough 4) members from 11 member kinds in every order x 8 rules x 5 limits: Ref is order independent; the key-loop model (Impl) refines Ref; limit rule',
                'tiers': {'quick': {'env': {'MC_MEMBERS': '3'}}, 'thorough': {'env': {'MC_MEMBERS': '4'}}}}],
        'drivers': [{'name': 'c12', 'shards': 8, 'per': 6000, 'tiers': {'thorough': {'per': 40000}}}, CONC('c12')],
        'codes': ['C12.'],
        'rule': 'size.parse (JSON mode) on generated documents: scalars, strings with escapes, every sequence of <= 2 members and ~19x19x28x2 sequences of 3 members, random longer objects, '
                'whitespace styles, every truncation and 16 trailing byte strings of 6 documents, member counts around MaxObjectKeys with value/unit first, last, middle; x 12 JSON rule subsets x MaxObjectKeys in {0,1,2,3,16}; '
                'the abstract document of every input is derived from the bytes with encoding/json (json.Valid + token stream)',
        'assumptions': COMMON_ASSUMPTIONS + ['the abstract JSON document and well-formedness of an input are derived by the harness with encoding/json (json.Valid, Decoder tokens), as the property prescribes'],
    },
    'C16': {
        'level_text': 'A Go-slice model (heap, in-place append vs reallocation) shows the frame condition for append-only writers and a negative control breaking it; the real formatters are judged on prefixes from every byte value and from their own output alphabet, spare capacity 0..64, every flag subset, with the nil-buffer output logged in the same event; the same driver also runs as 8 goroutines of one process (Conc.tla: TLC for 3 goroutines incl. negative control, TLAPS for any number).',
        'mc': [{'module': 'MC_C16', 'what': 'Go slice model: an append-only writer satisfies the frame condition for every prefix/spare capacity/output (<= 3 each); a whole-buffer post-processing writer (negative control) breaks it'}, CONC_MC, CONC_MC_NEG],
        'drivers': [{'name': 'c16', 'shards': 8}, CONC('c16')],
        'legs': [CONC_PROOF],
        'codes': ['C16.'],
        'rule': 'fmt.append: for each of the 5 DefaultFormatter functions, prefixes drawn from every byte value (alone and around a formatter letter), prefixes made of the symbols the formatter emits, '
                'spare capacity 0..64, every flag subset, boundary values; the bytes on a nil buffer are logged in the same event; plus ID.URN in uu.fmt events (also emitted by this driver)',
        'assumptions': COMMON_ASSUMPTIONS,
    },
    'C17': {
        'level_text': 'Generic receiver machine model-checked with action properties (a failing call changes nothing, scribbling changes nothing); Util.tla composes the five package machines (Isolation, KeepOnFail checked exhaustively to depth 3/4) and its simulated behaviours are replayed on persistent real receivers; seeded histories and string/bytes twins judged by TLC. One caller buffer, two records (twin2) and the Memo.tla model of remembered inputs (negative control: a key that aliases the slice of the caller).',
        'pre': [gen_util_behaviours],
        'drivers': [{'name': 'c17', 'shards': 8}, {'name': 'util', 'shards': 4, 'per': 6000}, {'name': 'ovr', 'shards': 1}, CONC('c17')],
        'mc': [UTIL_MC] + MEMO_MC + [{'module': 'MC_C17', 'what': 'generic receiver machine: 3 parsable / 3 unparsable inputs, histories to depth 5: a failing call never changes the receiver, scribbling the input never changes earlier results'}],
        'codes': ['C17.'],
        'rule': 'recv.call: seeded histories (12 steps) of UnmarshalText/JSON/Binary/Scan per type with valid, near-valid and over-long inputs, receiver logged before/after, input snapshot and scribble; '
                'twin: every parser entry point on string, []byte, named string, named []byte with equal values and equal error messages',
        'assumptions': COMMON_ASSUMPTIONS,
    },
    'C18': {
        'level_text': 'The limit gate is model-checked for the five reference parsers; every parsing/validating/comparing entry point is driven with seeded random and structured bytes (invalid UTF-8, NUL, BOM, long runs), the full limit matrix, form prefixes at limit+1 and non-ASCII bytes at every position; demands: no panic, too-long <=> over the limit, no echo of the input. Megabyte inputs are described by shape (giant events: limit gate at scale, cost demands on allocation and stack growth, comparisons judged by the cancellation law); a call that kills the process is found through intent files and reported as a crash; Lazy.tla models configuration changed between calls.',
        'pre': [gen_util_behaviours],
        'drivers': [{'name': 'c18', 'shards': 8, 'per': 8000}, {'name': 'util', 'shards': 4, 'per': 6000}, CONC('c18')],
        'mc': [UTIL_MC] + LAZY_MC + [{'module': 'MC_C18', 'what': 'limit gate shared by the five parsers: maxLen x input length grid'}],
        'codes': ['C18.'],
        'rule': 'every parsing / validating / comparing entry point of the five packages on seeded random bytes, fragment soups (invalid UTF-8, multi-byte runes, NUL, BOM), long runs and mutated valid texts, '
                'under all rule subsets; limit matrix MaxInputLength in {0,1,default,default+1} x lengths {0,1,limit-1,limit,limit+1,limit+2,10x}; demands: no panic, too-long <=> over the limit, message does not echo the input',
        'assumptions': COMMON_ASSUMPTIONS + ['coverage-guided native fuzzing is not part of this technique: inputs are seeded and structured; allocation is not measured'],
    },
    'C19': {
        'level_text': 'UURandom (Lock; Draw; Draw; Unlock; Compose) model-checked for 3 goroutines x 2 calls in every interleaving with a lock-free negative control; Apalache proves the mask lemma for all 2^126 draw pairs; hook traces of 12 concurrent configurations are validated against the lock protocol, Compose, version/variant, distinctness and per-bit coverage; the harness runs under the race detector. Bulk runs of 2^26 (thorough 2^28) ids are summarised (duplicates among 1 in 256 kept ids, wrong version/variant, OR/AND of all ids).',
        'race': True,
        'mc': [{'module': 'MC_C19', 'what': 'UURandom: 3 goroutines x 2 calls, all interleavings: mutual exclusion, consecutive draws, no sharing; liveness AllDone'},
               {'module': 'MC_C19', 'cfg': 'MC_C19_nolock', 'expect_violation': 'Consecutive', 'what': 'negative control: without the lock TLC finds interleaved draws'}],
        'drivers': [{'name': 'c19', 'shards': 4, 'race': True}, {'name': 'c19bulk', 'shards': 3}],

        'legs': [race_leg, 'apalache_masks',
                 vf.apalache_leg('UURandomInd', 'IndInv', 0, 'lock protocol: Init => IndInv (5 goroutines, unbounded calls)', init='Init'),
                 vf.apalache_leg('UURandomInd', 'IndInv', 1, 'lock protocol: IndInv /\\ Next => IndInv (inductive step)', init='IndInit'),
                 vf.apalache_leg('UURandomInd', 'Safety', 0, 'IndInv => mutual exclusion and consecutive draws', init='IndInit')],
        'codes': ['C19.'],
        'rule': 'hook events (lock acquired / about to be released / draws received) and returned IDs of concurrent runs: 12 configurations of 1..64 goroutines x GOMAXPROCS 1..16, '
                'with scheduler yields inside the critical section, ordered by an atomic counter inside the hooks; each run validated against the lock protocol, Compose, version/variant, '
                'distinctness of all IDs of the run and both values of each of the 122 free bits; harness built with -race, reports raised as C19.race; Apalache proves the mask lemma for all 2^126 draw pairs',
        'assumptions': COMMON_ASSUMPTIONS + ['the Go memory model is not modelled: the specification decides the lock protocol from hook traces; the race detector is an additional sensor',
                                             'schedules are those the Go scheduler produced in this run (GOMAXPROCS 1..16, yields in the critical section); they are not enumerated'],
    },
    'C20': {
        'level_text': 'The helpers are specified as an interpreter (CaseFails); TLC enumerates every single test case and all pairs over a reduced alphabet as programs, the harness instantiates them on the real helpers with a recording TestingT, and TLC judges the recorded verdicts; the one deviation of the library is modelled by name and reported as a known finding. T may be an interface type; Before hooks may complete the case they receive; the unmarshal helpers also run with a TypeHelper; the empty text is data too.',
        'pre': [gen_c20_vectors],
        'drivers': [{'name': 'c20', 'shards': 8, 'per': 20000}],

        'codes': ['C20.'],
        'exhaustive': {'quick': True, 'thorough': True},
        'rule': 'spec -> code: TLC enumerates every single test case (3 constraints x 4 before x 4 after x 5 behaviours x 11 expectations, minus 2 uninstantiable) x 2 directions x 3 encodings x '
                'value/pointer receivers, every ordered pair over a reduced alphabet (108^2), empty lists, mixed-direction lists and types lacking the interface; the harness instantiates each as a scripted type '
                'and case list on the real helpers with a recording TestingT; code -> spec: the recorded verdicts are judged by TLC against TestHelper!CaseFails; plus seeded random lists of 3-8 cases',
        'assumptions': COMMON_ASSUMPTIONS + ['a helper "reports a failure" iff the recording TestingT saw Errorf or FailNow; predicates are instantiated to hold / not hold for the error text the scripted behaviour produces'],
    },
}
