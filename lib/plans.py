"""Per-property plans: which MC modules, drivers, demand codes and extra legs decide a property."""

NOT_APPLICABLE = {}
HOOK_COMMITS = []

COMMON_ASSUMPTIONS = [
    'TLC 1.8 evaluates the specification faithfully; the Json community module parses the ndjson traces '
    '(the trace encoder refuses values it would mangle: non-int32 numbers, fractions, null)',
    'the harness calls the public API of the code built from $VERIF_REPO (default /repo working tree) and logs '
    'arguments and observations without interpreting them; verdicts are taken by TLC only',
]

import vf


def g09_events(s):
    return ([{'op': 'date.set', 'max': 0}, {'op': 'date.parse', 'in': s, 'rule': 0, 'T': 's'}], None)


def g10_events(s):
    return ([{'op': 'roman.set', 'max': 128, 'fmt': 0}, {'op': 'roman.parse', 'in': s, 'rule': 0, 'T': 's'},
             {'op': 'roman.parse', 'in': [c + 32 for c in s], 'rule': 0, 'T': 's'},
             {'op': 'roman.parse', 'in': [c + 32 if i % 2 else c for i, c in enumerate(s)], 'rule': 0, 'T': 'b'}], None)


PLANS = {
    'C01': {
        'mc': [{'module': 'MC_C01', 'what': '18 boundary years x every day x {ext,basic} x 8 limits: Parse(Fmt(d)) = d, canonical shape, Ordinal counts days'}],
        'drivers': [{'name': 'c01', 'shards': 8, 'tiers': {'thorough': {'shards': 16}}}],
        'codes': ['C01.'],
        'exhaustive': {'thorough': True},
        'rule': 'one date.rt event per date: 10 output paths and 10 input-path results judged by TLC against FmtDate/ParseDateRef; '
                'quick = all days of 60 boundary years + 4-16 days of every year 0000-9999 + 5-9 digit years under 6 limits; '
                'thorough = every day of 0000-9999 as a day-consecutive chain (H.chain demand) + long years',
        'assumptions': COMMON_ASSUMPTIONS,
    },
    'C09': {
        'mc': [],
        'legs': [vf.graph_leg('g09', 'Graph_C09', {'quick': {'GRAPH_MAXLEN': '8'}, 'thorough': {'GRAPH_MAXLEN': '9'}}, g09_events,
                              'every string over {0,1,2,3,9,-} up to length 8 (thorough 9) + extensions of "20" to length 10: '
                              'accepted <=> in DateLang with a real day, value = written components; MC_C09 checks the laws of the spec on the same domain',
                              mc_module='MC_C09')],
        'drivers': [{'name': 'c09', 'shards': 8}],
        'codes': ['C09.'],
        'exhaustive': {'quick': True, 'thorough': True},
        'rule': 'graph: complete enumeration by TLC, looked up in the recorded graph of DefaultParser[string]; '
                'events: years x MM x DD grids in 4 separator layouts, all 256 byte values at every position of valid texts, '
                'insertions/deletions/truncations, rule x MaxInputLength x {string,[]byte} sweeps',
        'assumptions': COMMON_ASSUMPTIONS,
    },
    'C11': {
        'mc': [{'module': 'MC_C11', 'what': 'all 65536 (month,day) bytes x 6 years x versions x lengths: decode is strict; Decode(Encode(d)) = d'}],
        'drivers': [{'name': 'c11', 'shards': 8}],
        'codes': ['C11.'],
        'rule': 'date.bin events (layout + round trip) and date.unbin events (receiver pre/post state) judged by TLC against BinEncode/BinDecodeRef',
        'assumptions': COMMON_ASSUMPTIONS,
    },
    'C07': {
        'mc': [{'module': 'MC_C07', 'what': 'order laws, Ordinal monotone, Normalize idempotent on boundary years'}],
        'drivers': [{'name': 'c07', 'shards': 8, 'tiers': {'thorough': {'shards': 16}}}],
        'codes': ['C07.'],
        'rule': 'date.cmp / add / adddur / time / fromtime events judged by TLC against Calendar (Lt, Ord, AddYMD, Civil)',
        'assumptions': COMMON_ASSUMPTIONS,
    },
    'C15': {
        'mc': [{'module': 'MC_C15', 'what': 'filter state machine: build, mutate caller variables, probe; inclusive-interval invariant'}],
        'drivers': [{'name': 'c15', 'shards': 8}],
        'codes': ['C15.'],
        'rule': 'histories freset/vars/fbuild/vars/fcontains* replayed against the Date state machine (filters capture bounds at build time)',
        'assumptions': COMMON_ASSUMPTIONS,
    },
    'C02': {
        'mc': [{'module': 'MC_C02', 'what': 'n <= NMax x 128 flag sets: RomanValue(FmtRoman(n,f)) = n by both parser definitions, canonical form laws',
                'tiers': {'quick': {'env': {'MC_NMAX': '1999'}}, 'thorough': {'env': {'MC_NMAX': '4999'}}}}],
        'drivers': [{'name': 'c02', 'shards': 8, 'per': 4000, 'tiers': {'thorough': {'shards': 16, 'per': 3000}}}],
        'codes': ['C02.'],
        'exhaustive': {'thorough': True},
        'rule': 'roman.fmtall: one event per n with the outputs, parse-backs and Valid results of all 128 flag subsets, judged against '
                'FmtRoman (by rule) and ParseRomanRef; roman.paths: MarshalText/String/%R %r %L %l %s under every DefaultFormat. '
                'quick = all n <= 4000 + boundary tails at every thousand up to 131 999; thorough = all n in [0,130000]',
        'assumptions': COMMON_ASSUMPTIONS,
    },
    'C10': {
        'legs': [vf.graph_leg('g10', 'Graph_C10', {'quick': {'GRAPH_MAXLEN': '7'}, 'thorough': {'GRAPH_MAXLEN': '8'}}, g10_events,
                              'every string over {I,V,X,L,C,D,M} up to length 7 (thorough 8): accepted <=> in the group language, value = sum of groups; '
                              'lower/mixed case, []byte, Valid, UnmarshalText agree (anomalies empty); MC_C10: two parser definitions agree, parse unambiguous',
                              mc_module='MC_C10')],
        'drivers': [{'name': 'c10', 'shards': 8}],
        'codes': ['C10.'],
        'exhaustive': {'quick': True, 'thorough': True},
        'rule': 'graph: complete enumeration by TLC; events: all 256 byte values at every position of valid numerals, insertions, all case patterns, '
                'grammar-directed numerals in random case, random letter strings, limit and rule sweeps, string/[]byte, Valid alongside the parser',
        'assumptions': COMMON_ASSUMPTIONS,
    },
}
