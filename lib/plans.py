"""Per-property plans: which MC modules, drivers, demand codes and extra legs decide a property."""

COMMON_ASSUMPTIONS = [
    'TLC 1.8 evaluates the specification faithfully; the Json community module parses the ndjson traces '
    '(the trace encoder refuses values it would mangle: non-int32 numbers, fractions, null)',
    'the harness calls the public API of the code built from $VERIF_REPO (default /repo working tree) and logs '
    'arguments and observations without interpreting them; verdicts are taken by TLC only',
]

PLANS = {
    'C01': {
        'mc': [{'module': 'MC_C01', 'what': '18 boundary years x every day x {ext,basic} x 8 limits: Parse(Fmt(d)) = d, canonical shape, Ordinal counts days'}],
        'drivers': [{'name': 'c01', 'shards': 8, 'tiers': {'thorough': {'shards': 16}}}],
        'codes': ['C01.'],
        'exhaustive': {'thorough': True},
        'rule': 'one date.rt event per date: 10 output paths and 10 input-path results judged by TLC against FmtDate/ParseDateRef; '
                'quick = all days of 60 boundary years + 4-16 days of every year 0000-9999 + 5-9 digit years under 6 limits; '
                'thorough = every day of 0000-9999 as a day-consecutive chain (H.chain demand) + long years',
        'assumptions': COMMON_ASSUMPTIONS,
    },
}
