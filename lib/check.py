"""bin/check <Cxx> <quick|thorough> : decides one property. See lib/vf.py for the pipeline."""
import glob
import json
import os
import shutil
import sys
import tempfile
import time
import traceback

import vf
from plans import PLANS


def claimed(code, prefixes):
    return any(code.startswith(p) for p in prefixes)


def run_check(prop, tier, seed):
    plan = PLANS[prop]
    t0 = time.time()
    scratch = tempfile.mkdtemp(prefix='verif-%s-' % prop)
    cov = {'states': 0, 'transitions': 0, 'traces_validated_against_impl': 0, 'samples': [],
           'mc_runs': [], 'trace_events': 0, 'driver_ops': {}, 'graphs': [], 'mbt': [],
           'exhaustive': False, 'tlc_cmds': []}
    violations, known_hits, others = [], [], []
    try:
        harness = vf.build_harness(scratch, race=False)
        harness_race = vf.build_harness(scratch, race=True) if plan.get('race') else None
        known = vf.load_known()

        # ---- MC: the specification alone
        for mc in plan.get('mc', []):
            if isinstance(mc, str):
                mc = {'module': mc}
            t = mc.get('tiers', {}).get(tier, {})
            if t.get('skip'):
                continue
            r = vf.run_mc(mc['module'], scratch, cfg=t.get('cfg', mc.get('cfg')), env=t.get('env'),
                          timeout=t.get('timeout', 3600), expect_violation=mc.get('expect_violation'))
            cov['states'] += r['distinct']
            cov['transitions'] += r['generated']
            cov['mc_runs'].append({'module': mc['module'], 'cfg': t.get('cfg', mc.get('cfg', mc['module'])),
                                   'distinct': r['distinct'], 'generated': r['generated'], 'depth': r['depth'],
                                   'secs': round(r['secs'], 1), 'what': mc.get('what', '')})
            cov['tlc_cmds'].append(r['cmd'])

        # ---- pre steps (e.g. TLC generates programs / vectors that a driver replays)
        ctx = dict(harness=harness, scratch=scratch, tier=tier, seed=seed, prop=prop, env={})
        for pre in plan.get('pre', []):
            part = pre(ctx)
            cov['states'] += part.get('states', 0)
            cov['transitions'] += part.get('transitions', 0)
            cov['mbt'].append(part.get('info', {}))

        # ---- TV: traces from the real code, validated by TLC
        tdir = os.path.join(scratch, 'traces')
        crashes = []
        crash_files = {}
        for drv in plan.get('drivers', []):
            t = drv.get('tiers', {}).get(tier, {})
            h = harness_race if drv.get('race') else harness
            denv = dict(os.environ, **ctx['env']) if ctx['env'] else None
            if drv.get('race'):
                # the race detector reports into files; a report is real-code evidence (see the race leg)
                denv = dict(os.environ, GORACE='log_path=%s halt_on_error=0 exitcode=0' % os.path.join(scratch, 'race-report'))
            if drv.get('conc'):
                # the schedule dimension: the same driver, its shards as goroutines of one process
                sums = vf.run_conc(h, drv['name'], tier, seed, tdir, goroutines=drv.get('goroutines', 8),
                                   limit=t.get('limit', drv.get('limit', 20000)), per=drv.get('per', 60000))
                cov.setdefault('concurrent', []).append({'driver': drv['name'], 'goroutines': drv.get('goroutines', 8),
                                                         'events': sum(x['events'] for x in sums)})
            else:
                sums = vf.run_driver(h, drv['name'], tier, seed, tdir, shards=t.get('shards', drv.get('shards', 8)),
                                     per=t.get('per', drv.get('per', 60000)), env=denv)
            for s in sums:
                if s.get('crash'):
                    crashes.append((prop + '.crash', s['req'], 'driver %s shard %d: the process died inside the call (%s)' % (s['driver'], s['shard'], s['how'])))
                    crash_files[id(s['req'])] = s.get('files', [])
                for op, n in s['ops'].items():
                    cov['driver_ops'][op] = cov['driver_ops'].get(op, 0) + n
        files = sorted(glob.glob(os.path.join(tdir, '*.ndjson')))
        results = vf.validate_all(files, scratch, module=plan.get('trace_module', 'Trace')) if files else []
        for r in results:
            cov['states'] += r['distinct']
            cov['transitions'] += r['generated']
            cov['traces_validated_against_impl'] += 1
            cov['trace_events'] += r['events']
        # samples: actual events of this run, one per operation (configuration events last);
        # distinct_nontrivial: distinct call events (configuration / reset events excluded), counted
        import hashlib as _h
        seen_ops, distinct = {}, set()
        for f in files:
            with open(f, 'rb') as fh:
                for line in fh:
                    i = line.find(b'"op":"')
                    op = line[i + 6:line.find(b'"', i + 6)].decode() if i >= 0 else '?'
                    trivial = op.endswith(('.set', '.reset', '.univ'))
                    if not trivial:
                        distinct.add(_h.blake2b(line, digest_size=8).digest())
                    if op not in seen_ops and len(line) < 4000:
                        seen_ops[op] = json.loads(line)
        cov['evaluations'] = cov['trace_events']
        cov['distinct_nontrivial'] = len(distinct)
        ordered = sorted(seen_ops, key=lambda o: (o.endswith(('.set', '.reset', '.univ')), o))
        for op in ordered:
            cov['samples'].append(seen_ops[op])
        del distinct

        # ---- extra legs (graphs, MBT) are plug-ins: each returns (coverage-part, mismatches)
        extra_bads = list(crashes)
        unreproduced = []
        not_reproduced = []
        for leg in plan.get('legs', []):
            if leg == 'apalache_masks':
                leg = vf.apalache_masks_leg
            part, bads = leg(dict(harness=harness, scratch=scratch, tier=tier, seed=seed, prop=prop))
            cov['states'] += part.get('states', 0)
            cov['transitions'] += part.get('transitions', 0)
            cov['traces_validated_against_impl'] += part.get('traces', 0)
            cov[part.get('kind', 'graphs')].append(part.get('info', {}))
            cov['samples'] += part.get('samples', [])[:2]
            extra_bads += bads   # list of (code, events-to-replay, note)

        # ---- mismatches -> replay -> known findings -> verdict
        pending = []   # (code, events, target, note)
        overflow = 0
        for r in results:
            if r['nbad'] > len(r['bads']):
                overflow += r['nbad'] - len(r['bads'])
            for (idx, code) in r['bads']:
                if code.startswith('H.'):
                    raise vf.HarnessError('harness self-check %s failed at %s:%d' % (code, r['path'], idx))
                evs, target = vf.context_events(r['path'], idx)
                pending.append((code, evs, target, '%s:%d' % (os.path.basename(r['path']), idx), (r['path'], idx)))
        for (code, evs, note) in extra_bads:
            if code is None:
                # disagreement found by TLC's own enumeration: the failed demands are determined by
                # re-executing the point through the trace specification
                new, codes = vf.replay_events(harness, evs, scratch, module=plan.get('trace_module', 'Trace'), any_event=True)
                codes = sorted(set(codes))
                if not codes:
                    # TLC saw the recorded graph disagree with the specification, but the point behaves
                    # correctly when executed alone (the code under test keeps state between calls?).
                    # Not a verdict by itself; the run cannot claim that the property held either.
                    unreproduced.append(note)
                    continue
                for c in codes:
                    pending.append((c, evs, new[-1], note, None))
            elif code.endswith('.crash'):
                # "returns normally" failed in the strongest way: confirmed by re-executing the request alone
                again, how = vf.replay_crash(harness, evs, scratch)
                if not again and crash_files.get(id(evs)):
                    # the call alone returns: it may need what the process did before (everything the shard
                    # had recorded up to the call is re-executed, then the call)
                    hist = []
                    for f in crash_files[id(evs)]:
                        with open(f) as fh:
                            hist += [json.loads(l) for l in fh if l.strip()]
                    again, how = vf.replay_crash(harness, hist + [evs[-1]], scratch)
                    if again:
                        note += ' (needs the %d preceding calls of the driver process: state leaks between calls)' % len(hist)
                        evs = hist + [evs[-1]]
                if not again:
                    not_reproduced.append('%s, but the request completes in a fresh process, alone and after the recorded history' % note)
                    continue
                if claimed(code, plan['codes']):
                    violations.append((code, evs, note + '; again when re-executed in a fresh process (%s)' % how, None))
                else:
                    others.append((code, note))
            elif code == 'C19.race':
                violations.append((code, evs, note, None))      # a detector report is not re-executable
            else:
                pending.append((code, evs, evs[-1], note, None))

        replayed_codes = {}
        conc_info = {}
        for (code, evs, target, note, origin) in pending:
            if not claimed(code, plan['codes']):
                others.append((code, note))
                continue
            k = vf.matches_known(prop, code, target, known)
            # re-execute in isolation (bounded: a few per demand code, all get classified)
            cnt = replayed_codes.get(code, 0)
            if cnt < 3:
                mod = plan.get('trace_module', 'Trace')
                new, codes = vf.replay_events(harness, evs, scratch, module=mod, any_event=note.startswith('graph point'))
                if code not in codes and origin:
                    # not reproduced by the call alone: the behaviour may depend on what the process did
                    # before (state leaking between calls). Re-execute the history that preceded it.
                    for whole in (False, True):
                        hist = vf.prefix_events(origin[0], origin[1], whole_shard=whole)
                        new, codes = vf.replay_events(harness, hist, scratch, module=mod)
                        if code in codes:
                            evs = hist
                            note += ' (needs the %d preceding calls of the %s: state leaks between calls)' % (
                                len(hist) - 1, 'driver process' if whole else 'trace chunk')
                            break
                replayed_codes[code] = cnt + 1
                base = os.path.basename(origin[0]) if origin else ''
                if code not in codes and base.startswith('conc-'):
                    # seen in a goroutine's trace of the concurrent run and neither the call alone nor the
                    # goroutine's own history shows it: it needs the other goroutines. Observe it again.
                    spec = [d for d in plan['drivers'] if d.get('conc') and base.startswith('conc-%s-g' % d['name'])][0]
                    t = spec.get('tiers', {}).get(tier, {})
                    spec = dict(spec, limit=t.get('limit', spec.get('limit', 20000)))
                    ev2, tries = vf.reobserve_conc(harness, spec, tier, seed, scratch, code, module=mod, prefixes=plan['codes'])
                    if ev2 is not None:
                        conc_info[id(evs)] = {'driver': spec['name'], 'goroutines': spec.get('goroutines', 8), 'tier': tier,
                                              'seed': seed, 'limit': spec['limit']}
                        note += ' (only when calls run concurrently in one process; observed again in a fresh concurrent run, attempt %d%s)' % (
                            tries, ', there as failed demand %s' % ev2['_other_demand'] if '_other_demand' in ev2 else '')
                        codes = [code]
                if code not in codes:
                    # not a verdict by itself; reported as such only when nothing else is established
                    not_reproduced.append('mismatch %s at %s did not reproduce, neither in isolation nor with its history (codes now %s)' % (code, note, codes))
                    continue
            if k:
                known_hits.append((k, code, note))
            else:
                violations.append((code, evs, note, conc_info.get(id(evs))))
        # The trace specification lists at most 25 failures per demand code and chunk. Unlisted
        # failures share their code with listed ones; that only matters when every listed failure of
        # a claimed code was explained by a known finding (the unlisted ones might not be).
        if not_reproduced and not violations:
            raise vf.HarnessError(not_reproduced[0] + '; not a verdict')
        for n in not_reproduced:
            vf.log('NOTE: ' + n)
        if unreproduced and not violations:
            raise vf.HarnessError('%d graph disagreements were not reproduced when the point was executed alone (first: %s); '
                                  'no other demand failed, so there is no verdict' % (len(unreproduced), unreproduced[0]))
        if overflow and not violations:
            # a finding identified by its own demand code alone (empty match) classifies unlisted
            # failures of that code as well; only input-specific matches are affected by the cap
            known_codes = set(c for (k, c, _) in known_hits if k.get('match'))
            if known_codes:
                raise vf.HarnessError('%d failed demands beyond the per-code cap could not be matched against known findings (%s)'
                                      % (overflow, ', '.join(sorted(known_codes))))

        byfinding = {}
        for (k, code, note) in known_hits:
            byfinding.setdefault(k.get('id', k['what']), [k, code, note, 0])[3] += 1
        for (k, code, note, n) in byfinding.values():
            vf.log('KNOWN-FINDING: property=%s %s [demand %s, %d events of this run, first at %s]' % (prop, k['what'], code, n, note))
        seen = set()
        for (code, note) in others:
            if code not in seen:
                kind = 'specification growth, no listed property' if code.startswith('X.') else 'belongs to another property'
                vf.log('NOTE: demand %s (%s) failed at %s; not part of %s' % (code, kind, note, prop))
                seen.add(code)
        percode = {}
        for (code, evs, note, conc) in violations:
            percode[code] = percode.get(code, 0) + 1
            if percode[code] > 3 or sum(1 for c in percode if percode[c] >= 1) > 12 and percode[code] > 1:
                continue
            path = vf.write_replay_file(prop, code, evs, 'demand %s of the specification failed at %s' % (code, note), concurrent=conc)
            vf.log('VIOLATION property=%s replay=%s' % (prop, path))
            vf.log('  (demand %s at %s)' % (code, note))
        if violations:
            vf.log('[%s] failed demands: %s' % (prop, ', '.join('%s x%d' % kv for kv in sorted(percode.items()))))

        cov['exhaustive'] = bool(plan.get('exhaustive', {}).get(tier, False))
        cov['rule'] = plan.get('rule', '') + ' | distinct_nontrivial = distinct recorded call events (configuration/reset events excluded), counted by hashing every event line'
        cov['known_findings_reported'] = len(known_hits)
        cov['other_property_notes'] = sorted(set(c for c, _ in others))
        cov['samples'] = cov['samples'][:8] or [{'note': 'no trace samples (MC only)'}]
        vf.write_evidence(prop, tier, seed, cov, time.time() - t0, len(violations),
                          plan.get('assumptions', []))
        vf.log('[%s] %s tier=%s seed=%d states=%d transitions=%d trace_events=%d wall=%.1fs'
               % (prop, 'VIOLATED' if violations else 'held', tier, seed, cov['states'], cov['transitions'],
                  cov['trace_events'], time.time() - t0))
        return 1 if violations else 0
    finally:
        shutil.rmtree(scratch, ignore_errors=True)


def main():
    if len(sys.argv) < 2:
        print('usage: check <Cxx> [quick|thorough]')
        return 2
    prop = sys.argv[1]
    tier = sys.argv[2] if len(sys.argv) > 2 else os.environ.get('VERIF_TIER', 'quick')
    seed = int(os.environ.get('VERIF_SEED', '1') or 1) & 0x7fffffff
    try:
        return run_check(prop, tier, seed)
    except vf.HarnessError as e:
        print('HARNESS-ERROR (exit 2, not a verdict): %s' % e, flush=True)
        return 2
    except Exception:
        traceback.print_exc()
        print('HARNESS-ERROR (exit 2, not a verdict): internal error', flush=True)
        return 2


if __name__ == '__main__':
    sys.exit(main())
