package main

import (
	"errors"
	"fmt"
	"strings"

	"go.lstv.dev/util/uu"
)

func uuIs(err error) []string {
	out := []string{}
	if errors.Is(err, uu.ErrInputTooLong) {
		out = append(out, "ErrInputTooLong")
	}
	if errors.Is(err, uu.ErrURNFormatDisabled) {
		out = append(out, "ErrURNFormatDisabled")
	}
	return out
}

func uuTyped(err error) bool {
	var a *uu.ParseError[string]
	var b *uu.ParseError[[]byte]
	var c *uu.ParseError[myStr]
	var d *uu.ParseError[myBytes]
	return errors.As(err, &a) || errors.As(err, &b) || errors.As(err, &c) || errors.As(err, &d)
}

func nibbles(id uu.ID) []int {
	out := make([]int, 32)
	for i := 0; i < 16; i++ {
		out[i] = int(id.Higher>>(60-4*i)) & 0xf
		out[16+i] = int(id.Lower>>(60-4*i)) & 0xf
	}
	return out
}

func mkID(v any) uu.ID {
	a := ints(v)
	var id uu.ID
	for i := 0; i < 16; i++ {
		id.Higher |= uint64(a[i]&0xf) << (60 - 4*i)
		id.Lower |= uint64(a[16+i]&0xf) << (60 - 4*i)
	}
	return id
}

func uuBack(id uu.ID, err error) []int {
	if err != nil {
		return []int{0}
	}
	return append([]int{1}, nibbles(id)...)
}

func init() {
	ops["uu.set"] = func(e Ev) Ev {
		uu.MaxInputLength = num(e["max"])
		return e
	}
	ops["uu.fmt"] = func(e Ev) Ev {
		id := mkID(e["id"])
		f0, _ := uu.DefaultFormatter(nil, id, 0)
		fu, _ := uu.DefaultFormatter(nil, id, uu.FormatURN)
		mt, err := id.MarshalText()
		if err != nil {
			mt = []byte("!error")
		}
		e["f0"], e["fu"], e["str"], e["mt"], e["urn"] = S(f0), S(fu), S(id.String()), S(mt), S(id.URN())
		e["vs"], e["vu"] = S(fmt.Sprintf("%s", id)), S(fmt.Sprintf("%u", id))
		for i := range mt {
			mt[i] = '#'
		}
		mt2, err2 := id.MarshalText()
		if err2 != nil {
			mt2 = []byte("!error")
		}
		e["mt2"], e["str2"] = S(mt2), S(id.String())
		held, _ := id.MarshalText()
		heldF, _ := uu.DefaultFormatter(nil, id, 0)
		oth := uu.ID{Higher: ^id.Higher, Lower: id.Lower + 1}
		_, _ = oth.MarshalText()
		_, _ = uu.DefaultFormatter(nil, oth, uu.FormatURN)
		hs, hu := id.String(), id.URN()
		_, _ = oth.String(), oth.URN()
		e["held"], e["heldf"], e["helds"], e["heldu"] = S(held), S(heldF), S(hs), S(hu)
		e["version"], e["variant"] = id.Version(), id.Variant()
		lower := string(f0)
		upper := strings.ToUpper(lower)
		res := [][]int{}
		for _, text := range []string{lower, upper, "urn:uuid:" + lower, "URN:uuid:" + upper} {
			res = append(res, uuBack(uu.DefaultParser(text, 0)))
			res = append(res, uuBack(uu.DefaultParser([]byte(text), 0)))
			var r uu.ID
			err := r.UnmarshalText([]byte(text))
			res = append(res, uuBack(r, err))
		}
		e["back"] = res
		// one read buffer: this record, then refilled with another id of the same length (last bit flipped)
		own := func(x uu.ID) string {
			return fmt.Sprintf("%08x-%04x-%04x-%04x-%012x", x.Higher>>32, (x.Higher>>16)&0xffff, x.Higher&0xffff, x.Lower>>48, x.Lower&0xffffffffffff)
		}
		id2 := uu.ID{Higher: id.Higher, Lower: id.Lower ^ 1}
		first := uuBack(uu.DefaultParser(reused([]byte(own(id))), 0))
		second := uuBack(uu.DefaultParser(reused([]byte(own(id2))), 0))
		e["reuse"], e["sibtext"] = [][]int{first, second}, own(id2)
		return e
	}
	ops["uu.parse"] = func(e Ev) Ev {
		in := fromB(e["in"])
		rule := uu.Rule(num(e["rule"]))
		var id uu.ID
		var err error
		p := try(func() {
			switch str(e["T"]) {
			case "s":
				id, err = uu.DefaultParser(string(in), rule)
			case "S":
				id, err = uu.DefaultParser(myStr(in), rule)
			case "B":
				id, err = uu.DefaultParser(myBytes(reused(in)), rule)
			default:
				id, err = uu.DefaultParser(reused(in), rule)
			}
		})
		e["panic"] = p
		var bad uu.InvalidDigitError
		if errors.As(err, &bad) {
			e["baddigit"] = int(byte(bad))
		} else {
			e["baddigit"] = -1
		}
		e["ok"] = err == nil && !p
		e["v"] = nibbles(id)
		e["typed"] = err != nil && uuTyped(err)
		e["is"] = uuIs(err)
		e["echo"] = err != nil && containsBytes(err.Error(), in)
		return e
	}
}
