package main

import "strings"

// A process's first calls may leave something behind (lazily built tables, caches sized from the
// configuration in effect, "last value" shortcuts). Before its own work every driver process
// therefore runs a short prologue chosen by its shard number: the package's entry points called
// under an unusual configuration (limit 1, no limit, switches on, other default format), then the
// configuration is put back. The events are recorded and judged like any others, and what follows
// is judged against the restored configuration.
var driverPkgs = map[string][]string{
	"c01": {"date"}, "c09": {"date"}, "c11": {"date"}, "c07": {"date"}, "c15": {"date"},
	"c02": {"roman"}, "c10": {"roman"},
	"c03": {"sem"}, "c06": {"sem"}, "c14": {"sem"},
	"c04": {"size"}, "c13": {"size"}, "c08": {"size"}, "c12": {"size"},
	"c05": {"uu"},
	"c16": {"date", "roman", "sem", "size", "uu"}, "c17": {"date", "roman", "sem", "size", "uu"}, "c18": {"date", "roman", "sem", "size", "uu"},
}

func prologue(d *Drv, driver string) {
	variant := d.Shard % 4
	if variant == 0 {
		return // this process starts with its own work
	}
	for _, pkg := range driverPkgs[driver] {
		max := []int{0, 1, 0, 7}[variant]
		switch pkg {
		case "date":
			d.Do(Ev{"op": "date.set", "max": max})
			for i, in := range []string{"2024-02-29", "20240229", "123456789-12-31", "2024-02-30", "", "x"} {
				d.Do(Ev{"op": "date.parse", "in": B(in), "rule": i % 2, "T": []string{"s", "b"}[i%2]})
			}
			d.Do(Ev{"op": "date.rt", "y": 1999, "m": 12, "d": 31, "chain": 0})
			d.Do(Ev{"op": "date.set", "max": 10})
		case "roman":
			d.Do(Ev{"op": "roman.set", "max": max, "fmt": []int{0, 1, 62, 127}[variant]})
			for i, in := range []string{"MCMXCIV", "mmxxiv", "", "IIII", "VX", strings.Repeat("M", 200)} {
				d.Do(Ev{"op": "roman.parse", "in": B(in), "rule": i % 2, "T": []string{"s", "b"}[i%2]})
			}
			d.Do(Ev{"op": "roman.paths", "n": 1994})
			d.Do(Ev{"op": "roman.paths", "n": 0})
			d.Do(Ev{"op": "roman.set", "max": 128, "fmt": 0})
		case "sem":
			d.Do(Ev{"op": "sem.set", "max": max})
			for i, in := range []string{"1.2.3", "v1.2.3-rc.1+b.7", "1.2", "01.2.3", "1.0.0-alpha.beta", ""} {
				d.Do(Ev{"op": "sem.parse", "in": B(in), "fn": []string{"Parse", "ParseVersion", "ParseTag", "DefaultParser"}[i%4], "rule": i % 2, "T": []string{"s", "b"}[i%2]})
			}
			d.Do(Ev{"op": "sem.set", "max": 1024})
		case "size":
			sizeSet(d, variant == 3, variant >= 2, variant == 3, []int{6, 0, 15, 2}[variant], max, []int{16, 1, 0, 2}[variant])
			for i, in := range []string{"12 345 KiB", "1024", `"1KiB"`, `{"value":1,"unit":"KiB"}`, `{"a":1,"b":2,"value":1,"unit":"B"}`, "16EiB", ""} {
				doc, wf := abstractDoc([]byte(in))
				d.Do(Ev{"op": "size.parse", "in": B(in), "rule": []int{0, 6, 15, 9}[i%4], "T": []string{"s", "b"}[i%2], "doc": doc, "wf": wf})
			}
			// marshalling round trips are stated for the default rule and a limit that admits the output
			sizeSet(d, variant == 3, variant >= 2, variant == 3, 6, 128, 16)
			d.Do(Ev{"op": "size.marshal", "n": dig(20480)})
			d.Do(Ev{"op": "size.marshal", "n": dig(0)})
			sizeDefaults(d)
		case "uu":
			d.Do(Ev{"op": "uu.set", "max": max})
			for i, in := range []string{"123e4567-e89b-12d3-a456-426614174000", "urn:uuid:123e4567-e89b-12d3-a456-426614174000", "123E4567-E89B-12D3-A456-426614174000", "123e4567e89b12d3a456426614174000", ""} {
				d.Do(Ev{"op": "uu.parse", "in": B(in), "rule": i % 4, "T": []string{"s", "b"}[i%2]})
			}
			d.Do(Ev{"op": "uu.fmt", "id": make([]int, 32)})
			d.Do(Ev{"op": "uu.set", "max": 45})
		}
	}
	d.S.Boundary()
}
