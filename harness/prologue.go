package main

import (
	"fmt"
	"os"
	"strings"
)

// A process's first calls may leave something behind (lazily built tables, caches sized from the
// configuration in effect, "last value" shortcuts). Before its own work every driver process
// therefore runs a short prologue chosen by its shard number: the package's entry points called
// under an unusual configuration (limit 1, no limit, switches on, other default format), then the
// configuration is put back. The events are recorded and judged like any others, and what follows
// is judged against the restored configuration.
var driverPkgs = map[string][]string{
	"c01": {"date"}, "c09": {"date"}, "c11": {"date"}, "c07": {"date"}, "c15": {"date"},
	"c02": {"roman"}, "c10": {"roman"},
	"c03": {"sem"}, "c06": {"sem"}, "c14": {"sem"},
	"c04": {"size"}, "c13": {"size"}, "c08": {"size"}, "c12": {"size"},
	"c05": {"uu"},
	"c16": {"date", "roman", "sem", "size", "uu"}, "c17": {"date", "roman", "sem", "size", "uu"}, "c18": {"date", "roman", "sem", "size", "uu"},
}

// zoneSweep: in a process whose time zone is set (TZ), every day of 2008-2024 goes through the
// driver's main operation regardless of how the driver shares its work among the shards: days on
// which local midnight does not exist are ordinary calendar days for a date type.
func zoneSweep(d *Drv, driver string) {
	if os.Getenv("TZ") == "" || concMode {
		return
	}
	mdays := []int{31, 28, 31, 30, 31, 30, 31, 31, 30, 31, 30, 31}
	for y := 2008; y <= 2024; y++ {
		for m := 1; m <= 12; m++ {
			n := mdays[m-1]
			if m == 2 && y%4 == 0 {
				n = 29
			}
			for dd := 1; dd <= n; dd++ {
				switch driver {
				case "c11":
					d.Do(Ev{"op": "date.bin", "a": []int{y, m, dd}})
				case "c01":
					d.Do(Ev{"op": "date.rt", "y": y, "m": m, "d": dd, "chain": 0})
				case "c09":
					d.Do(Ev{"op": "date.parse", "in": B(fmt.Sprintf("%04d-%02d-%02d", y, m, dd)), "rule": dd % 2, "T": []string{"s", "b"}[m%2]})
				}
			}
		}
		d.S.Boundary()
	}
}

func prologue(d *Drv, driver string) {
	zoneSweep(d, driver)
	v8 := d.Shard % 8
	if v8 == 0 {
		return // this process starts with its own work
	}
	variant := v8 % 4 // 0: default limits, 1: limit 1, 2: no limit, 3: limit 7
	shift := v8 / 4   // which rule the very first call carries
	for _, pkg := range driverPkgs[driver] {
		max := []int{map[string]int{"date": 10, "roman": 128, "sem": 1024, "size": 128, "uu": 45}[pkg], 1, 0, 7}[variant]
		switch pkg {
		case "date":
			d.Do(Ev{"op": "date.set", "max": max})
			for i, in := range []string{"2024-02-29", "20240229", "123456789-12-31", "2024-02-30", "", "x"} {
				d.Do(Ev{"op": "date.parse", "in": B(in), "rule": (i + shift) % 2, "T": []string{"s", "b"}[i%2]})
			}
			d.Do(Ev{"op": "date.rt", "y": 1999, "m": 12, "d": 31, "chain": 0})
			d.Do(Ev{"op": "date.set", "max": 10})
		case "roman":
			d.Do(Ev{"op": "roman.set", "max": max, "fmt": []int{0, 1, 62, 127}[variant]})
			for i, in := range []string{"MCMXCIV", "mmxxiv", "", "IIII", "VX", strings.Repeat("M", 200)} {
				d.Do(Ev{"op": "roman.parse", "in": B(in), "rule": (i + shift) % 2, "T": []string{"s", "b"}[i%2], "vfirst": shift == 1})
			}
			d.Do(Ev{"op": "roman.paths", "n": 1994})
			d.Do(Ev{"op": "roman.paths", "n": 0})
			d.Do(Ev{"op": "roman.set", "max": 128, "fmt": 0})
		case "sem":
			d.Do(Ev{"op": "sem.set", "max": max})
			if shift == 1 { // Valid() on a hand-built value before anything was parsed or compared
				d.Do(Ev{"op": "sem.valid", "v": ver("1", "2", "3", "rc.1", "b.7")})
				d.Do(Ev{"op": "sem.valid", "v": ver("0", "0", "0", "", "")})
			}
			for i, in := range []string{"1.2.3", "v1.2.3-rc.1+b.7", "1.2", "01.2.3", "1.0.0-alpha.beta", ""} {
				d.Do(Ev{"op": "sem.parse", "in": B(in), "fn": []string{"Parse", "ParseVersion", "ParseTag", "DefaultParser"}[i%4], "rule": (i + shift) % 2, "T": []string{"s", "b"}[i%2]})
			}
			d.Do(Ev{"op": "sem.set", "max": 1024})
		case "size":
			sizeSet(d, variant == 3, variant >= 2, variant == 3, []int{6, 0, 15, 2}[variant], max, []int{16, 1, 0, 2}[variant])
			texts := []string{"12 345 KiB", "1024", `"1KiB"`, `{"value":1,"unit":"KiB"}`, `{"a":1,"b":2,"value":1,"unit":"B"}`, "16EiB", ""}
			rules := []int{0, 6, 15, 6, 15, 9, 2}
			if shift == 1 { // the first parse of the process is an object
				texts[0], texts[3] = texts[3], texts[0]
				rules[0], rules[3] = rules[3], rules[0]
			}
			for i, in := range texts {
				doc, wf := abstractDoc([]byte(in))
				d.Do(Ev{"op": "size.parse", "in": B(in), "rule": rules[i], "T": []string{"s", "b"}[i%2], "doc": doc, "wf": wf})
			}
			// marshalling round trips are stated for the default rule and a limit that admits the output
			sizeSet(d, variant == 3, variant >= 2, variant == 3, 6, 128, 16)
			d.Do(Ev{"op": "size.marshal", "n": dig(20480)})
			d.Do(Ev{"op": "size.marshal", "n": dig(0)})
			sizeDefaults(d)
		case "uu":
			d.Do(Ev{"op": "uu.set", "max": max})
			for i, in := range []string{"123e4567-e89b-12d3-a456-426614174000", "urn:uuid:123e4567-e89b-12d3-a456-426614174000", "123E4567-E89B-12D3-A456-426614174000", "123e4567e89b12d3a456426614174000", ""} {
				d.Do(Ev{"op": "uu.parse", "in": B(in), "rule": (i + shift) % 4, "T": []string{"s", "b"}[i%2]})
			}
			d.Do(Ev{"op": "uu.fmt", "id": make([]int, 32)})
			d.Do(Ev{"op": "uu.set", "max": 45})
		}
	}
	d.S.Boundary()
}
