package main

func init() {
	// C02: formatter canonical form and round trip under all 128 flag sets.
	drivers["c02"] = func(d *Drv) {
		d.Do(Ev{"op": "roman.set", "max": 128, "fmt": 0})
		one := func(n int) { d.Do(Ev{"op": "roman.fmtall", "n": n}); d.S.Boundary() }
		if d.Thorough() {
			a, b := d.Span(0, 130000)
			for n := a; n <= b; n++ {
				one(n)
			}
		} else {
			a, b := d.Span(0, 4000)
			for n := a; n <= b; n++ {
				one(n)
			}
			// boundary tails at every thousand up to the limit, and numerals of exactly 127..130 bytes
			tails := []int{0, 1, 3, 4, 5, 8, 9, 14, 19, 40, 44, 49, 90, 94, 99, 400, 444, 449, 494, 499, 888, 900, 944, 949, 990, 994, 999}
			for k := 4; k <= 131; k++ {
				if !d.Mine(k) {
					continue
				}
				for _, t := range tails {
					if (k+t)%4 == 0 || k >= 112 {
						one(k*1000 + t)
					}
				}
			}
		}
		// MarshalText / String / verbs under every DefaultFormat
		ns := []int{0, 1, 4, 9, 14, 40, 49, 90, 99, 400, 444, 499, 900, 949, 999, 1994, 2024, 3888, 3999, 4000, 4999, 49999, 116888, 117888, 127999, 128000, 130000}
		nr := 100
		if d.Thorough() {
			nr = 3000
		}
		for i := 0; i < nr; i++ {
			ns = append(ns, d.R.Intn(130001))
		}
		for f := 0; f < 128; f++ {
			if !d.Mine(f) {
				continue
			}
			d.Do(Ev{"op": "roman.set", "max": 128, "fmt": f})
			for _, n := range ns {
				d.Do(Ev{"op": "roman.paths", "n": n})
			}
			d.S.Boundary()
		}
		// other limits: 0 (disabled) lets longer numerals round-trip, small limits refuse
		for _, max := range []int{0, 1, 5, 127, 129, 200} {
			if !d.Mine(max) {
				continue
			}
			d.Do(Ev{"op": "roman.set", "max": max, "fmt": 64})
			for _, n := range []int{0, 1, 8, 38, 888, 3888, 5000, 117888, 127999, 128000, 128888, 150000, 199999} {
				one(n)
				d.Do(Ev{"op": "roman.paths", "n": n})
			}
		}
		d.Do(Ev{"op": "roman.set", "max": 128, "fmt": 0})
	}

	// C10: foreign bytes, case patterns, rule and limit sweeps, string/bytes (the complete
	// letter-string domain is the graph g10)
	drivers["c10"] = func(d *Drv) {
		d.Do(Ev{"op": "roman.set", "max": 128, "fmt": 0})
		parse := func(in []byte, rule int, T string) {
			d.Do(Ev{"op": "roman.parse", "in": B(in), "rule": rule, "T": T})
			d.S.Boundary()
		}
		valid := []string{"MCMXCIV", "mmxxiv", "MDCLXVI", "dcccLXXXviii", "IIII", "VIIII", "XXXX", "LXXXX", "CCCC", "DCCCC", "CDXLIV", "cmxcix", "I", "m", "MMMMMMMMMMMM", "xlix", "CMXCIX", "MDCCCLXXXVIII"}
		for vi, v := range valid {
			if !d.Mine(vi) {
				continue
			}
			for pos := 0; pos < len(v); pos++ {
				for c := 0; c < 256; c++ {
					b := []byte(v)
					b[pos] = byte(c)
					parse(b, c%2, []string{"s", "b"}[(c/2)%2])
				}
			}
			for pos := 0; pos <= len(v); pos++ {
				for _, c := range []byte{'I', 'M', ' ', '\n', 0, 0xff, 'i', 'A', 'K'} {
					parse(append(append(append([]byte{}, v[:pos]...), c), v[pos:]...), 0, "s")
				}
				parse([]byte(v[:pos]), 1, "b")
				parse([]byte(v[:pos]), 0, "s")
			}
		}
		// letters outside ASCII that unicode-aware case mapping relates to roman letters or digits
		for wi, w := range []string{"I", "XIV", "MCMXCIX", "mmxxiv", "D"} {
			if !d.Mine(wi) {
				continue
			}
			for _, cf := range confusables {
				for pos := 0; pos <= len(w); pos++ {
					parse([]byte(w[:pos]+cf+w[pos:]), 0, "s")
					if pos < len(w) {
						parse([]byte(w[:pos]+cf+w[pos+1:]), 0, "b")
					}
				}
			}
		}
		// all case patterns of a few numerals
		for wi, w := range []string{"MCMXCIV", "CDXLIV", "DCLXVI", "XLIX"} {
			if !d.Mine(wi) {
				continue
			}
			for mask := 0; mask < 1<<len(w); mask++ {
				b := []byte(w)
				for i := range b {
					if mask&(1<<i) != 0 {
						b[i] += 32
					}
				}
				parse(b, 0, "s")
			}
		}
		// random letter strings in random case, longer than the graph domain
		nr := 3000
		if d.Thorough() {
			nr = 200000
		}
		letters := []byte("IVXLCDMivxlcdm")
		for i := 0; i < nr/d.NShards; i++ {
			n := d.R.Intn(24)
			b := make([]byte, n)
			for j := range b {
				b[j] = letters[d.R.Intn(len(letters))]
			}
			parse(b, d.R.Intn(2), []string{"s", "b"}[d.R.Intn(2)])
		}
		// grammar-directed valid numerals in random case
		H := []string{"", "C", "CC", "CCC", "CCCC", "CD", "D", "DC", "DCC", "DCCC", "DCCCC", "CM"}
		T := []string{"", "X", "XX", "XXX", "XXXX", "XL", "L", "LX", "LXX", "LXXX", "LXXXX", "XC"}
		U := []string{"", "I", "II", "III", "IIII", "IV", "V", "VI", "VII", "VIII", "VIIII", "IX"}
		k := 0
		for _, h := range H {
			for _, t := range T {
				for _, u := range U {
					k++
					if !d.Mine(k) {
						continue
					}
					ms := ""
					for i := 0; i < k%5; i++ {
						ms += "M"
					}
					b := []byte(ms + h + t + u)
					for i := range b {
						if d.R.Bool() {
							b[i] += 32
						}
					}
					parse(b, 0, "s")
					if k%7 == 0 {
						parse(append(b, b...), 0, "b")
					}
				}
			}
		}
		// limits
		if d.Shard == 0 {
			long := make([]byte, 300)
			for i := range long {
				long[i] = 'M'
			}
			for _, max := range []int{0, 1, 2, 127, 128, 129} {
				d.Do(Ev{"op": "roman.set", "max": max, "fmt": 0})
				for _, n := range []int{0, 1, 2, 3, 126, 127, 128, 129, 130, 256, 300} {
					for _, rule := range []int{0, 1} {
						parse(long[:n], rule, "s")
						parse(long[:n], rule, "b")
						if n > 2 {
							x := append([]byte{}, long[:n]...)
							x[n-1] = 'I'
							x[n-2] = 'x'
							parse(x, rule, "s")
							x[0] = '?'
							parse(x, rule, "b")
						}
					}
				}
			}
			d.Do(Ev{"op": "roman.set", "max": 128, "fmt": 0})
		}
	}
}
