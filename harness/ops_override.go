package main

import (
	"errors"
	"fmt"

	"go.lstv.dev/util/date"
	"go.lstv.dev/util/roman"
	"go.lstv.dev/util/sem"
	"go.lstv.dev/util/size"
	"go.lstv.dev/util/uu"
)

// Overridable Formatter / Parser function variables (specification growth): "default" restores
// the package default, "error" installs a function that fails, "stub" one that appends STUB /
// returns a fixed value.
var errOverride = errors.New("override failure")

var (
	stubDate  = date.New(1999, 9, 9)
	stubRoman = roman.Number(99)
	stubSem   = sem.Ver{Major: 9, Minor: 9, Patch: 9, PreRelease: "stub"}
	stubSize  = size.Size(9999)
	stubUU    = uu.ID{Higher: 9, Lower: 9}
)

func init() {
	ops["ovr.set"] = func(e Ev) Ev {
		f, p := str(e["fmt"]), str(e["parse"])
		switch str(e["pkg"]) {
		case "date":
			date.Formatter, date.Parser = date.DefaultFormatter, date.DefaultParser[[]byte]
			if f == "error" {
				date.Formatter = func(b []byte, _ date.Date, _ date.Format) ([]byte, error) { return b, errOverride }
			} else if f == "stub" {
				date.Formatter = func(b []byte, _ date.Date, _ date.Format) ([]byte, error) { return append(b, "STUB"...), nil }
			}
			if p == "error" {
				date.Parser = func([]byte, date.Rule) (date.Date, error) { return date.Date{}, errOverride }
			} else if p == "stub" {
				date.Parser = func([]byte, date.Rule) (date.Date, error) { return stubDate, nil }
			}
		case "roman":
			roman.Formatter, roman.Parser = roman.DefaultFormatter, roman.DefaultParser[[]byte]
			if f == "error" {
				roman.Formatter = func(b []byte, _ roman.Number, _ roman.Format) ([]byte, error) { return b, errOverride }
			} else if f == "stub" {
				roman.Formatter = func(b []byte, _ roman.Number, _ roman.Format) ([]byte, error) { return append(b, "STUB"...), nil }
			}
			if p == "error" {
				roman.Parser = func([]byte, roman.Rule) (roman.Number, error) { return 0, errOverride }
			} else if p == "stub" {
				roman.Parser = func([]byte, roman.Rule) (roman.Number, error) { return stubRoman, nil }
			}
		case "sem":
			sem.Formatter, sem.Parser = sem.DefaultFormatter, sem.DefaultParser[[]byte]
			if f == "error" {
				sem.Formatter = func(b []byte, _ sem.Ver, _ sem.Format) ([]byte, error) { return b, errOverride }
			} else if f == "stub" {
				sem.Formatter = func(b []byte, _ sem.Ver, _ sem.Format) ([]byte, error) { return append(b, "STUB"...), nil }
			}
			if p == "error" {
				sem.Parser = func([]byte, sem.Rule) (sem.Ver, error) { return sem.Ver{}, errOverride }
			} else if p == "stub" {
				sem.Parser = func([]byte, sem.Rule) (sem.Ver, error) { return stubSem, nil }
			}
		case "size":
			size.Formatter, size.Parser = size.DefaultFormatter, size.DefaultParser[[]byte]
			if f == "error" {
				size.Formatter = func(b []byte, _ size.Size, _ size.Format) ([]byte, error) { return b, errOverride }
			} else if f == "stub" {
				size.Formatter = func(b []byte, _ size.Size, _ size.Format) ([]byte, error) { return append(b, "STUB"...), nil }
			}
			if p == "error" {
				size.Parser = func([]byte, size.Rule) (size.Size, error) { return 0, errOverride }
			} else if p == "stub" {
				size.Parser = func([]byte, size.Rule) (size.Size, error) { return stubSize, nil }
			}
		case "uu":
			uu.Formatter, uu.Parser = uu.DefaultFormatter, uu.DefaultParser[[]byte]
			if f == "error" {
				uu.Formatter = func(b []byte, _ uu.ID, _ uu.Format) ([]byte, error) { return b, errOverride }
			} else if f == "stub" {
				uu.Formatter = func(b []byte, _ uu.ID, _ uu.Format) ([]byte, error) { return append(b, "STUB"...), nil }
			}
			if p == "error" {
				uu.Parser = func([]byte, uu.Rule) (uu.ID, error) { return uu.ID{}, errOverride }
			} else if p == "stub" {
				uu.Parser = func([]byte, uu.Rule) (uu.ID, error) { return stubUU, nil }
			}
		}
		return e
	}
	mt := func(b []byte, err error) Ev {
		if err != nil {
			return Ev{"ok": false, "out": ""}
		}
		return Ev{"ok": true, "out": S(b)}
	}
	ops["ovr.obs"] = func(e Ev) Ev {
		e["rfmt"], e["unitoff"], e["prettypanic"], e["urn"] = int(roman.DefaultFormat), size.DisableMarshalTextUnit, false, ""
		switch str(e["pkg"]) {
		case "date":
			v := mkDate(e["val"])
			e["str"], e["vs"], e["mt"] = S(v.String()), S(fmt.Sprintf("%s", v)), mt(v.MarshalText())
		case "roman":
			v := roman.Number(num(e["val"]))
			e["str"], e["vs"], e["mt"] = S(v.String()), S(fmt.Sprintf("%s", v)), mt(v.MarshalText())
		case "sem":
			v := mkVer(e["val"])
			e["str"], e["vs"], e["mt"] = S(v.String()), S(fmt.Sprintf("%s", v)), mt(v.MarshalText())
		case "size":
			v := size.Size(fromDig(e["val"]))
			e["str"], e["vs"], e["mt"] = S(v.String()), S(v.String()), mt(v.MarshalText())
			e["prettypanic"] = try(func() { _ = v.PrettyString() })
		case "uu":
			v := mkID(e["val"])
			e["str"], e["vs"], e["mt"] = S(v.String()), S(fmt.Sprintf("%s", v)), mt(v.MarshalText())
			e["urn"] = S(v.URN())
		}
		return e
	}
	ops["ovr.utext"] = func(e Ev) Ev {
		in := fromB(e["in"])
		var err error
		switch str(e["pkg"]) {
		case "date":
			r := mkDate(e["pre"])
			err = r.UnmarshalText(in)
			e["after"], e["stubval"] = ymd(r), ymd(stubDate)
		case "roman":
			r := roman.Number(num(e["pre"]))
			err = r.UnmarshalText(in)
			e["after"], e["stubval"] = clampN(r), clampN(stubRoman)
		case "sem":
			r := mkVer(e["pre"])
			err = r.UnmarshalText(in)
			e["after"], e["stubval"] = verEv(r), verEv(stubSem)
		case "size":
			r := size.Size(fromDig(e["pre"]))
			err = r.UnmarshalText(in)
			e["after"], e["stubval"] = dig(uint64(r)), dig(uint64(stubSize))
		case "uu":
			r := mkID(e["pre"])
			err = r.UnmarshalText(in)
			e["after"], e["stubval"] = nibbles(r), nibbles(stubUU)
		}
		e["ok"] = err == nil
		return e
	}
	// sem.ComparePreRelease is consulted by Ver.Compare exactly when the cores are equal
	ops["ovr.cmp"] = func(e Ev) Ev {
		a, b := mkVer(e["a"]), mkVer(e["b"])
		calls := 0
		old := sem.ComparePreRelease
		sem.ComparePreRelease = func(string, string) int { calls++; return num(e["stub"]) }
		e["res"] = a.Compare(b)
		sem.ComparePreRelease = old
		e["calls"] = calls
		e["plain"] = a.Compare(b)
		return e
	}
	drivers["ovr"] = func(d *Drv) {
		type pk struct {
			pkg  string
			vals []any
			pre  any
			ins  []string
		}
		pks := []pk{
			{"date", []any{[]int{2024, 2, 29}, []int{1, 1, 1}, []int{9999, 12, 31}}, []int{2001, 2, 3}, []string{"2024-02-29", "nonsense", ""}},
			{"roman", []any{0, 4, 1994, 3888}, 7, []string{"MMXXIV", "nonsense", ""}},
			{"sem", []any{ver("1", "2", "3", "", ""), ver("0", "0", "1", "rc.1", "b")}, ver("7", "7", "7", "", ""), []string{"1.2.3", "nonsense", ""}},
			{"size", []any{dig(0), dig(1024), dig(1234567), dig(18446744073709551615)}, dig(5), []string{"1KiB", "nonsense", ""}},
			{"uu", []any{make([]int, 32), randID(d)}, make([]int, 32), []string{"123e4567-e89b-12d3-a456-426614174000", "nonsense", ""}},
		}
		if d.Mine(2) {
			for _, c := range [][2]Ev{{ver("1", "2", "3", "a", ""), ver("1", "2", "3", "b", "")}, {ver("1", "2", "3", "", ""), ver("1", "2", "3", "rc", "x")},
				{ver("1", "2", "3", "b", ""), ver("1", "2", "4", "a", "")}, {ver("2", "0", "0", "a", ""), ver("1", "9", "9", "", "")}, {ver("1", "2", "3", "same", "x"), ver("1", "2", "3", "same", "y")}} {
				for _, stub := range []int{-1, 0, 1} {
					d.Do(Ev{"op": "ovr.cmp", "a": c[0], "b": c[1], "stub": stub, "st": 1})
				}
			}
			d.S.Boundary()
		}
		modes := []string{"default", "error", "stub"}
		for pi, p := range pks {
			if !d.Mine(pi) {
				continue
			}
			// the very first observation of a value happens under an overriding formatter (anything the
			// library remembers about a value must not outlive the override); the default formatter
			// comes first in every other driver
			fmodes := []string{"stub", "default", "error", "default"}
			for _, fm := range fmodes {
				for _, pm := range modes {
					d.Do(Ev{"op": "ovr.set", "pkg": p.pkg, "fmt": fm, "parse": pm})
					for _, v := range p.vals {
						d.Do(Ev{"op": "ovr.obs", "pkg": p.pkg, "val": v})
					}
					for _, in := range p.ins {
						d.Do(Ev{"op": "ovr.utext", "pkg": p.pkg, "in": B(in), "pre": p.pre})
					}
				}
			}
			if p.pkg == "roman" {
				for _, f := range []int{64, 63} {
					d.Do(Ev{"op": "roman.set", "max": 128, "fmt": f})
					d.Do(Ev{"op": "ovr.set", "pkg": p.pkg, "fmt": "error", "parse": "default"})
					d.Do(Ev{"op": "ovr.obs", "pkg": p.pkg, "val": 1994})
				}
				d.Do(Ev{"op": "roman.set", "max": 128, "fmt": 0})
			}
			if p.pkg == "size" {
				sizeSet(d, true, false, true, 6, 128, 16)
				for _, fm := range modes {
					d.Do(Ev{"op": "ovr.set", "pkg": p.pkg, "fmt": fm, "parse": "default"})
					d.Do(Ev{"op": "ovr.obs", "pkg": p.pkg, "val": dig(1024)})
				}
				sizeDefaults(d)
			}
			d.Do(Ev{"op": "ovr.set", "pkg": p.pkg, "fmt": "default", "parse": "default"})
			// everything restored: the values seen under the overrides, once more
			for _, v := range p.vals {
				d.Do(Ev{"op": "ovr.obs", "pkg": p.pkg, "val": v})
			}
			d.S.Boundary()
		}
	}
}
