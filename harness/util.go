package main

import "bytes"

func bytesReader(b []byte) *bytes.Reader { return bytes.NewReader(b) }

func stringsContains(s, sub string) bool {
	for i := 0; i+len(sub) <= len(s); i++ {
		if s[i:i+len(sub)] == sub {
			return true
		}
	}
	return false
}
