package main

import (
	"errors"
	"strconv"

	"go.lstv.dev/util/sem"
)

var semSentinels = []struct {
	name string
	err  error
}{
	{"ErrInputTooLong", sem.ErrInputTooLong},
	{"ErrInvalidPreRelease", sem.ErrInvalidPreRelease},
	{"ErrInvalidBuild", sem.ErrInvalidBuild},
	{"ErrTagFormNotAllowed", sem.ErrTagFormNotAllowed},
	{"ErrExpectedTagForm", sem.ErrExpectedTagForm},
	{"ErrInvalidMajor", sem.ErrInvalidMajor},
	{"ErrInvalidMinor", sem.ErrInvalidMinor},
	{"ErrInvalidPatch", sem.ErrInvalidPatch},
}

func semIs(err error) []string {
	out := []string{}
	for _, s := range semSentinels {
		if errors.Is(err, s.err) {
			out = append(out, s.name)
		}
	}
	return out
}

func semTyped(err error) bool {
	var a *sem.ParseError[string]
	var b *sem.ParseError[[]byte]
	var c *sem.ParseError[myStr]
	var d *sem.ParseError[myBytes]
	return errors.As(err, &a) || errors.As(err, &b) || errors.As(err, &c) || errors.As(err, &d)
}

func verEv(v sem.Ver) Ev {
	return Ev{"major": B(strconv.FormatUint(v.Major, 10)), "minor": B(strconv.FormatUint(v.Minor, 10)),
		"patch": B(strconv.FormatUint(v.Patch, 10)), "pre": B(v.PreRelease), "build": B(v.Build)}
}

func mkVer(x any) sem.Ver {
	m, ok := x.(map[string]any)
	if !ok {
		m = map[string]any(x.(Ev))
	}
	u := func(k string) uint64 {
		n, err := strconv.ParseUint(string(fromB(m[k])), 10, 64)
		if err != nil {
			fatal("mkVer: %v", err)
		}
		return n
	}
	return sem.Ver{Major: u("major"), Minor: u("minor"), Patch: u("patch"), PreRelease: string(fromB(m["pre"])), Build: string(fromB(m["build"]))}
}

func semParse(fn string, in []byte, rule sem.Rule, T string) (v sem.Ver, err error, panicked bool) {
	panicked = try(func() {
		if T == "s" {
			s := string(in)
			switch fn {
			case "Parse":
				v, err = sem.Parse(s)
			case "ParseVersion":
				v, err = sem.ParseVersion(s)
			case "ParseTag":
				v, err = sem.ParseTag(s)
			default:
				v, err = sem.DefaultParser(s, rule)
			}
		} else if T == "S" {
			s := myStr(in)
			switch fn {
			case "Parse":
				v, err = sem.Parse(s)
			case "ParseVersion":
				v, err = sem.ParseVersion(s)
			case "ParseTag":
				v, err = sem.ParseTag(s)
			default:
				v, err = sem.DefaultParser(s, rule)
			}
		} else if T == "B" {
			switch fn {
			case "Parse":
				v, err = sem.Parse(myBytes(reused(in)))
			case "ParseVersion":
				v, err = sem.ParseVersion(myBytes(reused(in)))
			case "ParseTag":
				v, err = sem.ParseTag(myBytes(reused(in)))
			default:
				v, err = sem.DefaultParser(myBytes(reused(in)), rule)
			}
		} else {
			switch fn {
			case "Parse":
				v, err = sem.Parse(reused(in))
			case "ParseVersion":
				v, err = sem.ParseVersion(reused(in))
			case "ParseTag":
				v, err = sem.ParseTag(reused(in))
			default:
				v, err = sem.DefaultParser(reused(in), rule)
			}
		}
	})
	return
}

func helperInt(n int, err error) []int {
	if err != nil {
		return []int{0, 0}
	}
	return []int{1, n}
}

// which of a, b a latest-of-two result is: 1 = a, 2 = b, 3 = both (equal values), 0 = neither
func which(r, a, b sem.Ver) int {
	w := 0
	if r == a {
		w |= 1
	}
	if r == b {
		w |= 2
	}
	return w
}

func helperVer(r sem.Ver, err error, a, b sem.Ver) []int {
	if err != nil {
		return []int{0, 0}
	}
	// helpers parse the formatted texts, which drops nothing: compare with the originals
	return []int{1, which(r, a, b)}
}

var semUniverse []string
var errNone = errors.New("not called")

func init() {
	ops["sem.set"] = func(e Ev) Ev {
		sem.MaxInputLength = num(e["max"])
		return e
	}
	ops["sem.parse"] = func(e Ev) Ev {
		in := fromB(e["in"])
		v, err, p := semParse(str(e["fn"]), in, sem.Rule(num(e["rule"])), str(e["T"]))
		for i := range reuseBuf[:cap(reuseBuf)][:len(in)] { // the caller reuses its buffer
			reuseBuf[:cap(reuseBuf)][i] = '#'
		}
		e["panic"] = p
		e["ok"] = err == nil && !p
		e["v"] = verEv(v)
		e["zero"] = v == sem.Ver{}
		e["typed"] = err != nil && semTyped(err)
		e["is"] = semIs(err)
		e["echo"] = err != nil && containsBytes(err.Error(), in)
		e["str"], e["strtag"] = B(v.String()), B(v.StringTag())
		return e
	}
	ops["sem.valid"] = func(e Ev) Ev {
		v := mkVer(e["v"])
		err := v.Valid()
		e["valid"] = err == nil
		e["is"] = semIs(err)
		e["core"] = verEv(v.Core())
		e["iszero"] = v.IsZero()
		// sem.New with 0..3 trailing strings: more than two panic
		news := []any{}
		for n := 0; n <= 3; n++ {
			extra := []string{v.PreRelease, v.Build, "x"}[:n]
			var nv sem.Ver
			p := try(func() { nv = sem.New(v.Major, v.Minor, v.Patch, extra...) })
			news = append(news, Ev{"panic": p, "v": verEv(nv)})
		}
		e["news"] = news
		t, _ := sem.DefaultFormatter(nil, v, 0)
		tt, _ := sem.DefaultFormatter(nil, v, sem.FormatTag)
		e["text"], e["texttag"] = B(t), B(tt)
		m1, _ := v.MarshalText()
		e["mt"] = B(m1)
		for i := range m1 {
			m1[i] = '#'
		}
		m2, _ := v.MarshalText()
		e["mt2"] = B(m2)
		held, _ := v.MarshalText()
		oth := sem.Ver{Major: v.Major + 1, Minor: 77, PreRelease: "other.1", Build: "x"}
		_, _ = oth.MarshalText()
		_, _ = sem.DefaultFormatter(nil, oth, sem.FormatTag)
		e["held"] = B(held)
		b, perr := sem.Parse(string(t))
		e["back"] = Ev{"ok": perr == nil, "v": verEv(b)}
		return e
	}
	ops["sem.univ"] = func(e Ev) Ev {
		semUniverse = nil
		for _, x := range e["u"].([]any) {
			semUniverse = append(semUniverse, string(fromB(x)))
		}
		return e
	}
	ops["sem.row"] = func(e Ev) Ev {
		a := sem.Ver{Major: 1, PreRelease: semUniverse[num(e["ai"])-1]}
		n := len(semUniverse)
		res, rev, lat := make([]int, n), make([]int, n), make([]int, n)
		for j, s := range semUniverse {
			b := sem.Ver{Major: 1, PreRelease: s}
			res[j], rev[j] = a.Compare(b), b.Compare(a)
			lat[j] = which(a.Latest(b), a, b)
		}
		e["res"], e["rev"], e["lat"] = res, rev, lat
		return e
	}
	ops["sem.one"] = func(e Ev) Ev {
		e["res"] = mkVer(e["a"]).Compare(mkVer(e["b"]))
		return e
	}
	ops["sem.cmp"] = func(e Ev) Ev {
		a, b := mkVer(e["a"]), mkVer(e["b"])
		e["res"], e["rev"] = a.Compare(b), b.Compare(a)
		b2, a2 := b, a
		b2.Build, a2.Build = "x.y-z", "zz.0"
		e["resb"], e["resab"] = a.Compare(b2), a2.Compare(b)
		e["lat"] = which(a.Latest(b), a, b)
		as, bs, at, bt := a.String(), b.String(), a.StringTag(), b.StringTag()
		e["hv"] = helperInt(sem.CompareVersion[string, string](as, bs))
		// []byte arguments live in one buffer the caller refills: the text parsed last by one call
		// is overwritten by the text the next call parses first
		e["ht"] = helperInt(sem.CompareTag(at, reused([]byte(bt))))
		e["ha"] = helperInt(sem.Compare(reused([]byte(at)), bs))
		e["hx"] = helperInt(sem.CompareVersion[string, string](at, bs))
		e["hy"] = helperInt(sem.CompareTag(at, bs))
		lv, err := sem.LatestVersion(as, reused([]byte(bs)))
		e["lv"] = helperVer(lv, err, a, b)
		lt, err := sem.LatestTag(reused([]byte(at)), bt)
		e["lt"] = helperVer(lt, err, a, b)
		la, err := sem.Latest(as, bt)
		e["la"] = helperVer(la, err, a, b)
		return e
	}
	// the six string helpers on raw texts (both operands as given)
	ops["sem.htext"] = func(e Ev) Ev {
		a, b := fromB(e["a"]), fromB(e["b"])
		lat := func(v sem.Ver, err error) Ev { return Ev{"ok": err == nil, "v": verEv(v)} }
		e["hv"], e["ht"], e["ha"] = []int{0, 0}, []int{0, 0}, []int{0, 0}
		e["lv"], e["lt"], e["la"] = lat(sem.Ver{}, errNone), lat(sem.Ver{}, errNone), lat(sem.Ver{}, errNone)
		// the helpers are generic over ~string | ~[]byte: plain types, named types, and []byte
		// arguments living in two buffers the caller reuses from call to call
		mode := (len(a) + len(b)) % 3
		e["panic"] = try(func() {
			switch mode {
			case 1:
				e["hv"] = helperInt(sem.CompareVersion[myStr, myBytes](string(a), string(b)))
				e["ht"] = helperInt(sem.CompareTag(myBytes(a), myStr(b)))
				e["ha"] = helperInt(sem.Compare(myStr(a), myStr(b)))
				e["lv"] = lat(sem.LatestVersion(myBytes(a), myBytes(b)))
				e["lt"] = lat(sem.LatestTag(myStr(a), string(b)))
				e["la"] = lat(sem.Latest(a, myStr(b)))
			case 2:
				e["hv"] = helperInt(sem.CompareVersion[[]byte, []byte](string(a), string(b)))
				e["ht"] = helperInt(sem.CompareTag(reused(a), string(b)))
				e["ha"] = helperInt(sem.Compare(reused(a), reused2(b)))
				e["lv"] = lat(sem.LatestVersion(reused(a), reused2(b)))
				e["lt"] = lat(sem.LatestTag(reused(a), reused2(b)))
				e["la"] = lat(sem.Latest(reused(a), string(b)))
			default:
				e["hv"] = helperInt(sem.CompareVersion[string, string](string(a), string(b)))
				e["ht"] = helperInt(sem.CompareTag(a, string(b)))
				e["ha"] = helperInt(sem.Compare(string(a), b))
				e["lv"] = lat(sem.LatestVersion(a, b))
				e["lt"] = lat(sem.LatestTag(string(a), string(b)))
				e["la"] = lat(sem.Latest(a, string(b)))
			}
		})
		return e
	}
	ops["sem.next"] = func(e Ev) Ev {
		v := mkVer(e["v"])
		one := func(f func() sem.Ver) Ev {
			var r sem.Ver
			p := try(func() { r = f() })
			above := 0
			if !p {
				above = r.Compare(v)
			}
			return Ev{"panic": p, "r": verEv(r), "above": above}
		}
		e["major"], e["minor"], e["patch"] = one(v.NextMajor), one(v.NextMinor), one(v.NextPatch)
		return e
	}

	// C03 graph: every string over {0,1,9,a,Z,-,.,+,v} up to a length through all entry points.
	// accepted: [text, mask, value] where mask bit i says entry point i accepted:
	//   1 Parse  2 ParseVersion  4 ParseTag  8 DefaultParser(0)  16 DefaultParser(RuleDisableTag)
	// anomalies: []byte instantiation or UnmarshalText differing from string, values differing
	// between accepting entry points, formatted result not reproducing the input, untyped or
	// non-zero rejections, panics.
	graphs["g03"] = func(tier string, g *graphOut) {
		old := sem.MaxInputLength
		sem.MaxInputLength = 1024
		defer func() { sem.MaxInputLength = old }()
		maxLen := 6
		if tier == "thorough" {
			maxLen = 7
		}
		g.Domain = "strings over {0,1,9,a,Z,-,.,+,v} up to length maxLen, through Parse, ParseVersion, ParseTag, DefaultParser with and without RuleDisableTag, string and []byte, UnmarshalText"
		type ep struct {
			fn   string
			rule sem.Rule
		}
		eps := []ep{{"Parse", 0}, {"ParseVersion", 0}, {"ParseTag", 0}, {"DefaultParser", 0}, {"DefaultParser", sem.RuleDisableTag}}
		enumStrings([]byte("019aZ-.+v"), maxLen, nil, 0, func(s []byte) {
			g.Total++
			mask := 0
			var val sem.Ver
			bad := ""
			for i, p := range eps {
				v, err, pn := semParse(p.fn, s, p.rule, "s")
				vb, errb, pnb := semParse(p.fn, s, p.rule, "b")
				if pn || pnb {
					bad = "panic"
					continue
				}
				if (err == nil) != (errb == nil) || v != vb {
					bad = "[]byte instantiation differs from string"
				}
				if err == nil {
					if mask != 0 && v != val {
						bad = "entry points return different values"
					}
					mask |= 1 << i
					val = v
					want := v.String()
					if len(s) > 0 && s[0] == 'v' {
						want = v.StringTag()
					}
					if want != string(s) {
						bad = "formatted result does not reproduce the input"
					}
				} else if !semTyped(err) || v != (sem.Ver{}) {
					bad = "rejection is not a typed ParseError with zero result"
				}
			}
			var u sem.Ver = sem.Ver{Major: 7, PreRelease: "keep"}
			uerr := u.UnmarshalText(s)
			if (uerr == nil) != (mask&8 != 0) || (uerr == nil && u != val) || (uerr != nil && u != sem.Ver{Major: 7, PreRelease: "keep"}) {
				bad = "UnmarshalText differs from DefaultParser"
			}
			if mask != 0 {
				ve := verEv(val)
				g.Accepted = append(g.Accepted, []any{B(s), mask, []any{ve["major"], ve["minor"], ve["patch"], ve["pre"], ve["build"]}})
			}
			if bad != "" {
				g.Anomalies = append(g.Anomalies, []any{B(s), bad})
			}
		})
	}
}
