package main

import (
	"runtime"
	"sort"
	"sync"
	"sync/atomic"

	"go.lstv.dev/util/uu"
)

// One concurrent run of uu.RandomID recorded through the verif hooks. Every event takes a unique
// slot from an atomic counter INSIDE the hook (for enter/exit that is inside the critical
// section), so the slot order is the order of the linearization points; no lock and no wall
// clock is involved in ordering.
type revent struct {
	kind int // 1 enter, 2 exit, 3 drawn, 4 ret
	a, b uint64
	id   uu.ID
}

func nib16(x uint64) []int {
	out := make([]int, 16)
	for i := 0; i < 16; i++ {
		out[i] = int(x>>(60-4*i)) & 0xf
	}
	return out
}

func randomRun(d *Drv, goroutines, perG, procs int, yield bool) {
	total := goroutines * perG
	slots := make([]revent, 4*total+4*goroutines+16)
	var next int64
	put := func(e revent) {
		i := atomic.AddInt64(&next, 1) - 1
		slots[i] = e
	}
	var ycount uint64
	uu.VerifHook = func(kind int, a, b uint64) {
		put(revent{kind: kind, a: a, b: b})
		if yield && kind == 1 {
			// widen the window in which a missing lock would let another goroutine in
			if atomic.AddUint64(&ycount, 1)%3 == 0 {
				runtime.Gosched()
			}
		}
	}
	old := runtime.GOMAXPROCS(procs)
	var wg sync.WaitGroup
	start := make(chan struct{})
	for g := 0; g < goroutines; g++ {
		wg.Add(1)
		go func() {
			defer wg.Done()
			<-start
			defer func() {
				if r := recover(); r != nil {
					put(revent{kind: 5})
				}
			}()
			for i := 0; i < perG; i++ {
				id := uu.RandomID()
				put(revent{kind: 4, id: id})
			}
		}()
	}
	close(start)
	wg.Wait()
	runtime.GOMAXPROCS(old)
	uu.VerifHook = nil
	d.S.Close() // one run per trace file
	d.Do(Ev{"op": "r.reset", "goroutines": goroutines, "procs": procs, "yield": yield, "st": 1})
	n := int(atomic.LoadInt64(&next))
	rets := 0
	for i := 0; i < n; i++ {
		e := slots[i]
		switch e.kind {
		case 1:
			d.S.Emit(Ev{"op": "r.enter", "st": 1})
		case 2:
			d.S.Emit(Ev{"op": "r.exit", "st": 1})
		case 3:
			d.S.Emit(Ev{"op": "r.drawn", "a": nib16(e.a), "b": nib16(e.b), "st": 1})
		case 5:
			d.S.Emit(Ev{"op": "r.panic", "st": 1})
		case 4:
			rets++
			d.S.Emit(Ev{"op": "r.ret", "id": nibbles(e.id), "st": 1})
		}
	}
	d.S.Emit(Ev{"op": "r.end", "n": rets, "want": total, "st": 1})
	d.S.Close()
}

func init() {
	// recorded concurrent events are observations; re-execution cannot reproduce a schedule, so
	// replay re-validates the recorded run itself
	for _, op := range []string{"r.reset", "r.enter", "r.exit", "r.drawn", "r.ret", "r.end", "r.panic"} {
		ops[op] = func(e Ev) Ev { return e }
	}
	// Tens of millions of ids in one run (no hooks installed, so at the library's own speed): too many
	// to record one by one. The operation keeps every id whose low byte is zero (1 in 256) and
	// reports how many of those occur twice, how many ids have a wrong version or variant, and the
	// OR / AND of all ids (every free bit must have been seen with both values).
	ops["r.bulk"] = func(e Ev) Ev {
		g, n := num(e["goroutines"]), 1<<num(e["log2n"])
		type part struct {
			kept      []uu.ID
			or, and   uu.ID
			bad, done int
			panicked  bool
		}
		parts := make([]part, g)
		var wg sync.WaitGroup
		for i := 0; i < g; i++ {
			wg.Add(1)
			go func(p *part) {
				defer wg.Done()
				p.and = uu.ID{Higher: ^uint64(0), Lower: ^uint64(0)}
				p.panicked = try(func() {
					for k := 0; k < n/g; k++ {
						id := uu.RandomID()
						if id.Version() != 4 || id.Variant() != 1 {
							p.bad++
						}
						p.or.Higher |= id.Higher
						p.or.Lower |= id.Lower
						p.and.Higher &= id.Higher
						p.and.Lower &= id.Lower
						if id.Lower&0xff == 0 {
							p.kept = append(p.kept, id)
						}
						p.done++
					}
				})
			}(&parts[i])
		}
		wg.Wait()
		var all []uu.ID
		or, and := uu.ID{}, uu.ID{Higher: ^uint64(0), Lower: ^uint64(0)}
		bad, done, panicked := 0, 0, false
		for i := range parts {
			p := &parts[i]
			all = append(all, p.kept...)
			or.Higher, or.Lower = or.Higher|p.or.Higher, or.Lower|p.or.Lower
			and.Higher, and.Lower = and.Higher&p.and.Higher, and.Lower&p.and.Lower
			bad, done, panicked = bad+p.bad, done+p.done, panicked || p.panicked
		}
		sort.Slice(all, func(i, j int) bool {
			if all[i].Higher != all[j].Higher {
				return all[i].Higher < all[j].Higher
			}
			return all[i].Lower < all[j].Lower
		})
		dups := 0
		first := uu.ID{}
		for i := 1; i < len(all); i++ {
			if all[i] == all[i-1] {
				if dups == 0 {
					first = all[i]
				}
				dups++
			}
		}
		e["panic"], e["done"], e["kept"], e["dups"], e["bad"] = panicked, done, len(all), dups, bad
		e["or"], e["and"], e["firstdup"] = nibbles(or), nibbles(and), nibbles(first)
		return e
	}
	drivers["c19bulk"] = func(d *Drv) {
		// one goroutine is the fastest way to many draws (no contention on the generator's lock);
		// the runs of one process continue the same generator
		big, small := 26, 23
		if d.Thorough() {
			big, small = 28, 26
		}
		d.Do(Ev{"op": "r.bulk", "goroutines": 1, "log2n": big, "st": 1})
		d.Do(Ev{"op": "r.bulk", "goroutines": []int{4, 16, 3}[d.Shard%3], "log2n": small, "st": 1})
	}
	drivers["c19"] = func(d *Drv) {
		type cfg struct{ g, procs int }
		cfgs := []cfg{{1, 1}, {2, 1}, {2, 2}, {4, 2}, {4, 4}, {8, 4}, {8, 16}, {16, 8}, {16, 16}, {64, 16}, {64, 2}, {3, 16}}
		per := 4000
		if d.Thorough() {
			per = 100000
		}
		for i, c := range cfgs {
			if !d.Mine(i) {
				continue
			}
			perG := per / c.g
			if perG < 8 {
				perG = 8
			}
			randomRun(d, c.g, perG, c.procs, i%2 == 0)
			if d.Thorough() {
				randomRun(d, c.g, perG, c.procs, i%2 == 1)
			}
		}
	}
}
