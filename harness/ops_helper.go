package main

import (
	"bufio"
	"encoding/json"
	"errors"
	"os"
	"strconv"
	"strings"
	"sync"

	"go.lstv.dev/util/test"
)

// C20: the real marshal-test helpers run on scripted types. A program (from the TLA+ vectors)
// is instantiated as a type whose Marshal*/Unmarshal* behave per the script, plus a case list,
// and run against a recording TestingT.

type absCase struct {
	C, B, A, Beh, Exp string
	// Empty: a "right" case whose data is the empty text: the marshaler returns (nil, nil)
	Empty bool
}

var (
	scriptMu sync.Mutex
	script   []absCase // behaviour of the scripted types, indexed by case number
)

const errText = "E-boom"

func behave(i int) (beh string) {
	if i < 0 || i >= len(script) {
		return "right"
	}
	return script[i].Beh
}

func dataOf(i int) string {
	if i >= 0 && i < len(script) && script[i].Empty {
		return ""
	}
	return strconv.Itoa(i)
}

// marshaler behaviour shared by every scripted marshaler
func doMarshal(i int) ([]byte, error) {
	switch behave(i) {
	case "right":
		if dataOf(i) == "" {
			return nil, nil // nothing to write: a nil slice, not an empty one
		}
		return []byte(dataOf(i)), nil
	case "wrong":
		return []byte("other"), nil
	case "error":
		return nil, errors.New(errText)
	case "errdata":
		return []byte("junk"), errors.New(errText)
	}
	panic("boom")
}

// unmarshaler behaviour: what ends up in the value, and the error
func doUnmarshal(data []byte) (got string, err error) {
	i, perr := strconv.Atoi(string(data))
	if perr != nil {
		i = -1
	}
	switch behave(i) {
	case "right":
		return "right", nil
	case "wrong":
		return "wrong", nil
	case "error":
		return "", errors.New(errText)
	case "errdata":
		return "junk", errors.New(errText)
	}
	panic("boom")
}

// value-receiver marshalers
type mvT struct{ ID int }

func (m mvT) MarshalText() ([]byte, error)   { return doMarshal(m.ID) }
func (m mvT) MarshalBinary() ([]byte, error) { return doMarshal(m.ID) }
func (m mvT) MarshalJSON() ([]byte, error)   { return doMarshal(m.ID) }

// pointer-receiver marshalers (used as T = *mpT)
type mpT struct{ ID int }

func (m *mpT) MarshalText() ([]byte, error)   { return doMarshal(m.ID) }
func (m *mpT) MarshalBinary() ([]byte, error) { return doMarshal(m.ID) }
func (m *mpT) MarshalJSON() ([]byte, error)   { return doMarshal(m.ID) }

// unmarshalers with pointer receivers (used as T = upT and as T = *upT)
type upT struct{ Got string }

func (u *upT) set(data []byte) error {
	got, err := doUnmarshal(data)
	u.Got = got
	return err
}
func (u *upT) UnmarshalText(data []byte) error   { return u.set(data) }
func (u *upT) UnmarshalBinary(data []byte) error { return u.set(data) }
func (u *upT) UnmarshalJSON(data []byte) error   { return u.set(data) }

// types that implement the unmarshaler interfaces NOT uniformly: Text and JSON but not Binary (partA),
// Binary and JSON but not Text (partB). Passing one type to the three Unmarshal* helpers in turn, in
// one process, is the history in which "what does T implement" must be answered per (type, interface).
type partA struct{ Got string }

func (u *partA) UnmarshalText(data []byte) error { return (*upT)(u).set(data) }
func (u *partA) UnmarshalJSON(data []byte) error { return (*upT)(u).set(data) }

type partB struct{ Got string }

func (u *partB) UnmarshalBinary(data []byte) error { return (*upT)(u).set(data) }
func (u *partB) UnmarshalJSON(data []byte) error   { return (*upT)(u).set(data) }

// T may itself be an interface type (one table mixing implementations): the helpers then see the
// dynamic type of each case's value
type allM interface {
	MarshalText() ([]byte, error)
	MarshalBinary() ([]byte, error)
	MarshalJSON() ([]byte, error)
}
type allU interface {
	UnmarshalText(data []byte) error
	UnmarshalBinary(data []byte) error
	UnmarshalJSON(data []byte) error
}

// a type with none of the interfaces
type plainT struct{ ID int }

type recT struct {
	errs    int
	failnow bool
}

func (r *recT) Errorf(format string, args ...any) { r.errs++ }
func (r *recT) FailNow()                          { r.failnow = true }
func (r *recT) Helper()                           {}

func constraintOf(c string) test.Constraint {
	switch c {
	case "marshal":
		return test.OnlyMarshal
	case "unmarshal":
		return test.OnlyUnmarshal
	}
	return 0
}

func hookErr(kind string) (use bool, f func() error) {
	switch kind {
	case "ok":
		return true, func() error { return nil }
	case "err":
		return true, func() error { return errors.New("hook failed") }
	case "panic":
		return true, func() error { panic("hook panic") }
	}
	return false, nil
}

func predicate(c absCase) test.AssertErrorFunc {
	prefix := "E-"
	match := "^E-bo+m$"
	if c.Beh == "panic" {
		prefix = "panic: boom"
		match = "^panic: boom"
	}
	switch c.Exp {
	case "any":
		return test.AnyError
	case "eq":
		return test.Error(errText)
	case "ne":
		return test.Error("a different text")
	case "prefix_ok":
		return test.ErrorHasPrefix(prefix)
	case "prefix_no":
		return test.ErrorHasPrefix("zzz")
	case "suffix_ok":
		return test.ErrorHasSuffix("boom")
	case "suffix_no":
		return test.ErrorHasSuffix("zzz")
	case "match_ok":
		return test.ErrorMatch(match)
	case "match_no":
		return test.ErrorMatch("^zzz$")
	case "match_bad":
		return test.ErrorMatch("(")
	}
	return nil
}

func textCases[T any](cs []absCase, val func(i int) T) []test.CaseText[T] {
	out := make([]test.CaseText[T], len(cs))
	for i, c := range cs {
		out[i] = test.CaseText[T]{Constraint: constraintOf(c.C), Error: predicate(c), Data: dataOf(i), Value: val(i)}
		if use, f := hookErr(c.B); use {
			out[i].Before = func(int, *test.CaseText[T]) error { return f() }
		}
		if c.B == "set" {
			// the case is completed by its Before hook (the hook receives the case to prepare it):
			// the table holds placeholder data, the hook puts in the data the case is about
			i := i
			out[i].Data = "bogus"
			out[i].Before = func(_ int, c *test.CaseText[T]) error { c.Data = dataOf(i); return nil }
		}
		if use, f := hookErr(c.A); use {
			out[i].After = func(int, *test.CaseText[T]) error { return f() }
		}
	}
	return out
}

func binaryCases[T any](cs []absCase, val func(i int) T) []test.CaseBinary[T] {
	out := make([]test.CaseBinary[T], len(cs))
	for i, c := range cs {
		out[i] = test.CaseBinary[T]{Constraint: constraintOf(c.C), Error: predicate(c), Data: []byte(dataOf(i)), Value: val(i)}
		if dataOf(i) == "" {
			out[i].Data = nil // what the marshaler returns for "nothing to write" (testify tells nil from an empty slice)
		}
		if use, f := hookErr(c.B); use {
			out[i].Before = func(int, *test.CaseBinary[T]) error { return f() }
		}
		if c.B == "set" {
			// the case is completed by its Before hook (the hook receives the case to prepare it):
			// the table holds placeholder data, the hook puts in the data the case is about
			i := i
			out[i].Data = []byte("bogus")
			out[i].Before = func(_ int, c *test.CaseBinary[T]) error { c.Data = []byte(dataOf(i)); return nil }
		}
		if use, f := hookErr(c.A); use {
			out[i].After = func(int, *test.CaseBinary[T]) error { return f() }
		}
	}
	return out
}

func jsonCases[T any](cs []absCase, val func(i int) T) []test.CaseJSON[T] {
	out := make([]test.CaseJSON[T], len(cs))
	for i, c := range cs {
		out[i] = test.CaseJSON[T]{Constraint: constraintOf(c.C), Error: predicate(c), Data: dataOf(i), Value: val(i)}
		if use, f := hookErr(c.B); use {
			out[i].Before = func(int, *test.CaseJSON[T]) error { return f() }
		}
		if c.B == "set" {
			// the case is completed by its Before hook (the hook receives the case to prepare it):
			// the table holds placeholder data, the hook puts in the data the case is about
			i := i
			out[i].Data = "bogus"
			out[i].Before = func(_ int, c *test.CaseJSON[T]) error { c.Data = dataOf(i); return nil }
		}
		if use, f := hookErr(c.A); use {
			out[i].After = func(int, *test.CaseJSON[T]) error { return f() }
		}
	}
	return out
}

// TypeHelper implementations for the two unmarshaler instantiations: they do what the helpers do
// without one (a fresh value, "empty" means nothing decoded, equality of what was decoded), so the
// verdict must be the same; the calls are counted.
type thVal struct{ news, empties, equals int }

func (h *thVal) New(upT) upT { h.news++; return upT{} }
func (h *thVal) AssertEmpty(t test.TestingT, v upT, failInfo string) {
	h.empties++
	if v.Got != "" {
		t.Errorf("%s: value not empty", failInfo)
	}
}
func (h *thVal) AssertEqual(t test.TestingT, expected, actual upT, failInfo string) {
	h.equals++
	if expected != actual {
		t.Errorf("%s: values differ", failInfo)
	}
}

type thPtr struct{ news, empties, equals int }

func (h *thPtr) New(*upT) *upT { h.news++; return &upT{} }
func (h *thPtr) AssertEmpty(t test.TestingT, v *upT, failInfo string) {
	h.empties++
	if v == nil || v.Got != "" {
		t.Errorf("%s: value not empty", failInfo)
	}
}
func (h *thPtr) AssertEqual(t test.TestingT, expected, actual *upT, failInfo string) {
	h.equals++
	if expected == nil || actual == nil || *expected != *actual {
		t.Errorf("%s: values differ", failInfo)
	}
}

func runUnmarshalWith[T any](t *recT, enc string, cs []absCase, val func(i int) T, h test.TypeHelper[T]) {
	switch enc {
	case "Text":
		test.UnmarshalText[T](t, textCases(cs, val), h)
	case "Binary":
		test.UnmarshalBinary[T](t, binaryCases(cs, val), h)
	default:
		test.UnmarshalJSON[T](t, jsonCases(cs, val), h)
	}
}

func runHelper[T any](t *recT, dir, enc string, cs []absCase, val func(i int) T) {
	switch dir + enc {
	case "marshalText":
		test.MarshalText(t, textCases(cs, val))
	case "marshalBinary":
		test.MarshalBinary(t, binaryCases(cs, val))
	case "marshalJSON":
		test.MarshalJSON(t, jsonCases(cs, val))
	case "unmarshalText":
		test.UnmarshalText[T](t, textCases(cs, val), nil)
	case "unmarshalBinary":
		test.UnmarshalBinary[T](t, binaryCases(cs, val), nil)
	case "unmarshalJSON":
		test.UnmarshalJSON[T](t, jsonCases(cs, val), nil)
	default:
		fatal("helper %s%s", dir, enc)
	}
}

func parseCases(v any) []absCase {
	arr, ok := v.([]any)
	if !ok {
		if a2, ok2 := v.([]int); ok2 && len(a2) == 0 {
			return nil
		}
		fatal("cases: %T", v)
	}
	out := make([]absCase, len(arr))
	for i, x := range arr {
		m := x.(map[string]any)
		out[i] = absCase{C: str(m["c"]), B: str(m["b"]), A: str(m["a"]), Beh: str(m["beh"]), Exp: str(m["exp"]), Empty: m["empty"] == true}
	}
	return out
}

func init() {
	ops["helper.run"] = func(e Ev) Ev {
		cs := parseCases(e["cases"])
		dir, enc, recv := str(e["dir"]), str(e["enc"]), str(e["recv"])
		iface := e["iface"] == true
		scriptMu.Lock()
		defer scriptMu.Unlock()
		script = cs
		t := &recT{}
		escaped := try(func() {
			switch {
			case iface && recv == "ifacetype" && dir == "marshal":
				runHelper(t, dir, enc, cs, func(i int) allM {
					if i%2 == 0 {
						return mvT{ID: i}
					}
					return &mpT{ID: i}
				})
			case iface && recv == "ifacetype":
				runHelper(t, dir, enc, cs, func(i int) allU { return &upT{Got: "right"} })
			case recv == "partA":
				runHelper(t, dir, enc, cs, func(i int) partA { return partA{Got: "right"} })
			case recv == "partB":
				runHelper(t, dir, enc, cs, func(i int) partB { return partB{Got: "right"} })
			case !iface && recv != "ptrmeth":
				runHelper(t, dir, enc, cs, func(i int) plainT { return plainT{ID: i} })
			case dir == "marshal" && recv == "ptrmeth":
				// a value type with pointer-receiver Marshal* methods: it lacks the marshaler interface
				runHelper(t, dir, enc, cs, func(i int) mpT { return mpT{ID: i} })
			case dir == "marshal" && recv == "value":
				runHelper(t, dir, enc, cs, func(i int) mvT { return mvT{ID: i} })
			case dir == "marshal":
				runHelper(t, dir, enc, cs, func(i int) *mpT { return &mpT{ID: i} })
			case recv == "value" && e["th"] == true:
				runUnmarshalWith[upT](t, enc, cs, func(i int) upT { return upT{Got: "right"} }, &thVal{})
			case recv == "value":
				runHelper(t, dir, enc, cs, func(i int) upT { return upT{Got: "right"} })
			case e["th"] == true:
				runUnmarshalWith[*upT](t, enc, cs, func(i int) *upT { return &upT{Got: "right"} }, &thPtr{})
			default:
				runHelper(t, dir, enc, cs, func(i int) *upT { return &upT{Got: "right"} })
			}
		})
		e["escaped"] = escaped
		e["failed"] = t.errs > 0 || t.failnow
		e["errorf"] = t.errs
		e["failnow"] = t.failnow
		return e
	}

	// c20 replays the programs TLC generated (spec/mc/MBT_C20.tla); VERIF_VEC names the file
	drivers["c20"] = func(d *Drv) {
		path := os.Getenv("VERIF_VEC")
		f, err := os.Open(path)
		if err != nil {
			fatal("c20: vectors: %v", err)
		}
		defer f.Close()
		sc := bufio.NewScanner(f)
		sc.Buffer(make([]byte, 1<<20), 1<<24)
		n := 0
		for sc.Scan() {
			n++
			if !d.Mine(n) {
				continue
			}
			var m map[string]any
			dec := json.NewDecoder(bytesReader(sc.Bytes()))
			dec.UseNumber()
			if err := dec.Decode(&m); err != nil {
				fatal("c20: vector %d: %v", n, err)
			}
			req := Ev(normalize(m).(map[string]any))
			req["op"] = "helper.run"
			req["th"] = n%4 == 0 && req["dir"] == "unmarshal" && req["iface"] == true && req["recv"] != "ifacetype"
			d.Do(req)
			d.S.Boundary()
		}
		// the empty text as data: satisfied lists in which it is the only thing special
		if d.Mine(0) {
			right := func(empty bool, exp string) map[string]any {
				return map[string]any{"c": "both", "b": "nil", "a": "nil", "beh": "right", "exp": exp, "empty": empty}
			}
			for _, dir := range []string{"marshal", "unmarshal"} {
				for _, enc := range []string{"Text", "Binary", "JSON"} {
					for _, recv := range []string{"value", "pointer", "ifacetype"} {
						for _, cases := range [][]any{{right(true, "none")}, {right(false, "none"), right(true, "none")}, {right(true, "none"), right(true, "none"), right(false, "none")}, {right(true, "any")}} {
							d.Do(Ev{"op": "helper.run", "dir": dir, "enc": enc, "recv": recv, "iface": true, "cases": cases, "th": false})
						}
					}
				}
			}
			d.S.Boundary()
		}
		// one type, the three unmarshal helpers in turn (both orders, twice round): the type has the
		// interface of some helpers only, and "iface" is what is true of (type, helper)
		if d.Mine(0) {
			c := func(beh, exp string) map[string]any {
				return map[string]any{"c": "both", "b": "nil", "a": "nil", "beh": beh, "exp": exp}
			}
			lists := [][]any{{c("right", "none")}, {c("right", "none"), c("wrong", "none")}, {c("error", "any"), c("right", "none")}}
			has := map[string]string{"partA": "Text JSON", "partB": "Binary JSON"}
			for _, run := range []struct {
				recv string
				encs []string
			}{{"partA", []string{"Text", "Binary", "JSON", "Text", "Binary"}}, {"partB", []string{"Text", "Binary", "JSON", "Text", "Binary"}}} {
				for _, enc := range run.encs {
					for _, cases := range lists {
						d.Do(Ev{"op": "helper.run", "dir": "unmarshal", "enc": enc, "recv": run.recv,
							"iface": strings.Contains(has[run.recv], enc), "cases": cases, "th": false})
					}
				}
			}
			d.S.Boundary()
		}
		// seeded random longer lists
		kinds := [][]string{{"both", "marshal", "unmarshal"}, {"nil", "ok", "err", "panic"}, {"right", "wrong", "error", "errdata", "panic"},
			{"none", "any", "eq", "ne", "prefix_ok", "prefix_no", "suffix_ok", "suffix_no", "match_ok", "match_no", "match_bad"}}
		nr := 1500
		if d.Thorough() {
			nr = 40000
		}
		for i := 0; i < nr/d.NShards; i++ {
			l := 3 + d.R.Intn(6)
			cases := make([]any, l)
			for j := range cases {
				c := map[string]any{"c": kinds[0][d.R.Intn(3)], "b": kinds[1][d.R.Intn(4)], "a": kinds[1][d.R.Intn(4)], "beh": kinds[2][d.R.Intn(5)], "exp": kinds[3][d.R.Intn(11)]}
				if d.R.Intn(3) != 0 {
					c["b"], c["a"] = "nil", "nil"
				}
				if c["beh"] == "panic" && (c["exp"] == "eq" || c["exp"] == "suffix_ok") {
					c["exp"] = "any"
				}
				if c["beh"] == "right" && c["b"] != "set" && d.R.Intn(4) == 0 {
					c["empty"] = true // the empty text as data (for the verdict: a right case)
				}
				cases[j] = c
			}
			recv, has := []string{"value", "pointer", "ifacetype"}[d.R.Intn(3)], d.R.Intn(12) != 0
			if recv == "ifacetype" {
				has = true
			}
			d.Do(Ev{"op": "helper.run", "dir": []string{"marshal", "unmarshal"}[d.R.Intn(2)], "enc": []string{"Text", "Binary", "JSON"}[d.R.Intn(3)],
				"recv": recv, "iface": has, "cases": cases, "th": recv != "ifacetype" && has && d.R.Intn(3) == 0})
			d.S.Boundary()
		}
	}
}
