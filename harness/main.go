package main

import (
	"encoding/json"
	"flag"
	"fmt"
	"os"
	"runtime/debug"
	"strconv"
	"strings"
	"sync"
	_ "time/tzdata" // the drivers also run under other process time zones (TZ), see lib/vf.py
)

// ops maps an operation name to the function that performs it on the real code. The
// function receives the request fields and returns the event completed with observations.
var ops = map[string]func(Ev) Ev{}

// drivers maps a driver name to its generator.
var drivers = map[string]func(d *Drv){}

// Drv is the context handed to a driver.
type Drv struct {
	Tier string
	Seed uint64
	// Shard i of N: drivers split their domains so that N processes can run in parallel;
	// Mine(k) tells whether work item k belongs to this process.
	Shard, NShards int
	R              *rng
	S              *Sink
	// Limit bounds the events of one goroutine in concurrent mode.
	Limit  int
	nparse int
	ncall  int
}

func (d *Drv) Thorough() bool  { return d.Tier == "thorough" }
func (d *Drv) Mine(k int) bool { return k%d.NShards == d.Shard }

// Span splits [lo, hi] into NShards contiguous ranges and returns this shard's.
func (d *Drv) Span(lo, hi int) (int, int) {
	n := hi - lo + 1
	a := lo + n*d.Shard/d.NShards
	b := lo + n*(d.Shard+1)/d.NShards - 1
	return a, b
}

// Do executes a request on the real code and records the completed event.
func (d *Drv) Do(req Ev) Ev {
	if concMode {
		// goroutines of one process share the package configuration: it stays at the library
		// defaults (configuration events are neither executed nor recorded, so the specification
		// judges every call under the defaults too)
		op := str(req["op"])
		if strings.HasSuffix(op, ".set") {
			return req
		}
		if d.S.total >= d.Limit {
			panic(stopDriver{})
		}
	}
	if T, ok := req["T"].(string); ok && strings.HasSuffix(str(req["op"]), ".parse") {
		// the parsers are generic over ~string | ~[]byte: every 8th request uses a named type of the same kind
		d.nparse++
		if d.nparse%8 == 0 {
			req["T"] = strings.ToUpper(T)
		}
	}
	op := str(req["op"])
	if op == "giant" {
		if concMode {
			return req // sets the package limit around its call: not for concurrent use
		}
		// the runtime may abort the process inside this call: leave the request behind
		d.S.Intent(req)
		defer d.S.IntentDone()
	}
	// A panic that escapes an operation ends this process; when it comes out of the library (and not
	// out of the harness's own code) the request is left behind like that of a dying process.
	defer func() {
		if r := recover(); r != nil {
			if _, ok := r.(stopDriver); ok {
				panic(r)
			}
			stack := string(debug.Stack())
			where := panicOrigin(stack)
			if strings.Contains(where, "go.lstv.dev/util") {
				intentMu.Lock() // one goroutine reports, the process exits
				d.S.Intent(req)
				fmt.Fprintf(os.Stderr, "panic: %v [in %s, operation %s]\n", r, where, op)
				os.Exit(3)
			}
			fatal("panic in the harness's own code (%s) during %s: %v\n%s", where, op, r, stack)
		}
	}()
	e := Exec(req)
	d.S.Emit(e)
	// the same call once more, directly afterwards (every 7th stateless call): a call must not
	// depend on having been made before
	d.ncall++
	if d.ncall%7 == 3 && repeatable(op, req) {
		again := Ev{}
		for k, v := range req {
			again[k] = v
		}
		if _, ok := again["chain"]; ok {
			again["chain"] = 0 // the repetition is not the successor of the previous point of a chain
		}
		d.S.Emit(Exec(again))
	}
	return e
}

var intentMu sync.Mutex

// panicOrigin names the function that panicked: the first frame after the runtime's panic frames.
func panicOrigin(stack string) string {
	lines := strings.Split(stack, "\n")
	seenPanic := false
	for i := 0; i+1 < len(lines); i++ {
		l := lines[i]
		if strings.HasPrefix(l, "panic(") || strings.HasPrefix(l, "runtime.") {
			if strings.HasPrefix(l, "panic(") {
				seenPanic = true
			}
			continue
		}
		if seenPanic && !strings.HasPrefix(l, "\t") && !strings.HasPrefix(l, "goroutine ") && l != "" {
			// frames of the standard library between the panic and its caller are passed over: what
			// matters is whether the library or the harness made the call that panicked
			if strings.HasPrefix(l, "go.lstv.dev/util") || strings.HasPrefix(l, "main.") {
				return l
			}
		}
	}
	return "unknown"
}

// repeatable: operations whose request carries everything they depend on (no harness-side state).
func repeatable(op string, req Ev) bool {
	if _, stateful := req["st"]; stateful {
		return false
	}
	for _, p := range []string{"date.f", "date.vars", "ovr.", "util.", "giant", "r."} {
		if strings.HasPrefix(op, p) {
			return false
		}
	}
	return !strings.HasSuffix(op, ".set") && !strings.HasSuffix(op, ".univ") && !strings.HasSuffix(op, ".reset")
}

// concMode: several drivers run as goroutines of this process (harness conc ...).
var concMode bool

type stopDriver struct{}

// Exec runs one request; a panic escaping the library is an observation, not a crash.
func Exec(req Ev) (out Ev) {
	op := str(req["op"])
	f, ok := ops[op]
	if !ok {
		fatal("unknown op %q", op)
	}
	return f(req)
}

// try runs f and reports whether it panicked.
func try(f func()) (panicked bool) {
	defer func() {
		if r := recover(); r != nil {
			panicked = true
		}
	}()
	f()
	return false
}

func main() {
	if len(os.Args) < 2 {
		fatal("usage: harness drive|replay ...")
	}
	switch os.Args[1] {
	case "drive":
		name := os.Args[2]
		fs := flag.NewFlagSet("drive", flag.ExitOnError)
		tier := fs.String("tier", "quick", "")
		seed := fs.Uint64("seed", 1, "")
		out := fs.String("out", ".", "")
		per := fs.Int("per", 100000, "events per chunk")
		shard := fs.Int("shard", 0, "")
		nshards := fs.Int("nshards", 1, "")
		fs.Parse(os.Args[3:])
		drv, ok := drivers[name]
		if !ok {
			fatal("unknown driver %q", name)
		}
		d := &Drv{Tier: *tier, Seed: *seed, R: &rng{s: *seed*0x9e3779b97f4a7c15 + 12345}, S: NewSink(*out, fmt.Sprintf("%s-s%02d", name, *shard), *per), Shard: *shard, NShards: *nshards}
		d.R.s += uint64(*shard) * 0x51ed27
		prologue(d, name)
		drv(d)
		d.S.Summary()
	case "conc":
		// conc <driver> -goroutines G : the driver's shards 0..G-1 run as goroutines of this one
		// process, each recording its own trace. Calls of a value library must not disturb one
		// another: every goroutine's trace has to be a behaviour of the (sequential) specification.
		name := os.Args[2]
		fs := flag.NewFlagSet("conc", flag.ExitOnError)
		tier := fs.String("tier", "quick", "")
		seed := fs.Uint64("seed", 1, "")
		out := fs.String("out", ".", "")
		per := fs.Int("per", 100000, "events per chunk")
		gs := fs.Int("goroutines", 8, "")
		limit := fs.Int("limit", 20000, "events per goroutine")
		fs.Parse(os.Args[3:])
		drv, ok := drivers[name]
		if !ok {
			fatal("unknown driver %q", name)
		}
		concMode = true
		var wg sync.WaitGroup
		sinks := make([]*Sink, *gs)
		for g := 0; g < *gs; g++ {
			d := &Drv{Tier: *tier, Seed: *seed, R: &rng{s: *seed*0x9e3779b97f4a7c15 + 12345 + uint64(g)*0x51ed27}, S: NewSink(*out, fmt.Sprintf("conc-%s-g%02d", name, g), *per), Shard: g, NShards: *gs, Limit: *limit}
			sinks[g] = d.S
			wg.Add(1)
			go func() {
				defer wg.Done()
				defer func() {
					if r := recover(); r != nil {
						if _, ok := r.(stopDriver); !ok {
							panic(r)
						}
					}
				}()
				prologue(d, name)
				drv(d)
			}()
		}
		wg.Wait()
		for _, s := range sinks {
			s.Summary()
		}
	case "replay":
		// replay <file> : file holds {"events":[...]}; each event is re-executed in order in
		// this fresh process and printed as ndjson (observations recomputed).
		raw, err := os.ReadFile(os.Args[2])
		if err != nil {
			fatal("%v", err)
		}
		var doc struct {
			Events []map[string]any `json:"events"`
		}
		dec := json.NewDecoder(bytesReader(raw))
		dec.UseNumber()
		if err := dec.Decode(&doc); err != nil {
			fatal("%v", err)
		}
		w := os.Stdout
		if len(os.Args) > 3 {
			w, err = os.Create(os.Args[3])
			if err != nil {
				fatal("%v", err)
			}
			defer w.Close()
		}
		for _, req := range doc.Events {
			e := Exec(normalize(req).(map[string]any))
			checkValue("replay", map[string]any(e))
			enc := json.NewEncoder(w)
			enc.SetEscapeHTML(false)
			enc.Encode(e)
		}
	case "graph":
		// graph <name> <tier> <out.json>
		runGraph(os.Args[2], os.Args[3], os.Args[4])
	case "ops":
		for k := range ops {
			fmt.Println(k)
		}
	default:
		fatal("unknown command %q", os.Args[1])
	}
}

// normalize turns json.Number into int and []any of numbers into []int where possible.
func normalize(v any) any {
	switch x := v.(type) {
	case json.Number:
		n, err := strconv.Atoi(x.String())
		if err != nil {
			fatal("replay: number %s", x)
		}
		return n
	case map[string]any:
		for k, y := range x {
			x[k] = normalize(y)
		}
		return x
	case []any:
		allInt := true
		for i, y := range x {
			x[i] = normalize(y)
			if _, ok := x[i].(int); !ok {
				allInt = false
			}
		}
		if allInt {
			out := make([]int, len(x))
			for i, y := range x {
				out[i] = y.(int)
			}
			return out
		}
		return x
	}
	return v
}
