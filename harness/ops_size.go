package main

import (
	"encoding/json"
	"errors"
	"fmt"
	"math"
	"math/big"
	"reflect"
	"strconv"
	"sync"

	"go.lstv.dev/util/constraint"
	"go.lstv.dev/util/size"
)

var sizeSentinels = []struct {
	name string
	err  error
}{
	{"ErrInputTooLong", size.ErrInputTooLong}, {"ErrObjectTooBig", size.ErrObjectTooBig}, {"ErrInvalidType", size.ErrInvalidType},
	{"ErrUnitDisabled", size.ErrUnitDisabled}, {"ErrExpectedObject", size.ErrExpectedObject}, {"ErrObjectFormDisabled", size.ErrObjectFormDisabled},
	{"ErrStringFormDisabled", size.ErrStringFormDisabled}, {"ErrMissingValueKey", size.ErrMissingValueKey}, {"ErrMissingUnitKey", size.ErrMissingUnitKey},
	{"ErrUnexpectedKey", size.ErrUnexpectedKey}, {"ErrDuplicatedValueKey", size.ErrDuplicatedValueKey}, {"ErrDuplicatedUnitKey", size.ErrDuplicatedUnitKey},
}

func sizeIs(err error) []string {
	out := []string{}
	for _, s := range sizeSentinels {
		if errors.Is(err, s.err) {
			out = append(out, s.name)
		}
	}
	return out
}

func sizeTyped(err error) bool {
	var a *size.ParseError[string]
	var b *size.ParseError[[]byte]
	var c *size.ParseError[myStr]
	var d *size.ParseError[myBytes]
	return errors.As(err, &a) || errors.As(err, &b) || errors.As(err, &c) || errors.As(err, &d)
}

// digits of a uint64 / decimal text as values 0..9
func dig(n uint64) []int { return digStr(strconv.FormatUint(n, 10)) }
func digStr(s string) []int {
	out := make([]int, len(s))
	for i := range s {
		out[i] = int(s[i] - '0')
	}
	return out
}
func fromDig(v any) uint64 {
	a := ints(v)
	b := make([]byte, len(a))
	for i, d := range a {
		b[i] = byte('0' + d)
	}
	n, err := strconv.ParseUint(string(b), 10, 64)
	if err != nil {
		fatal("fromDig: %v", err)
	}
	return n
}

func sback(s size.Size, err error) Ev { return Ev{"ok": err == nil, "v": dig(uint64(s))} }

type sizeStruct struct {
	A size.Size  `json:"a"`
	P *size.Size `json:"p"`
}

func init() {
	ops["size.set"] = func(e Ev) Ev {
		size.DisableMarshalTextUnit = e["dmtu"] == true
		size.DisableMarshalJSONStringForm = e["dmjs"] == true
		size.DisableMarshalJSONObjectForm = e["dmjo"] == true
		size.DefaultRule = size.Rule(num(e["rule"]))
		size.MaxInputLength = num(e["max"])
		size.MaxObjectKeys = num(e["keys"])
		return e
	}

	// C04 / C13: one size through every marshal form and back, and every rendering
	ops["size.marshal"] = func(e Ev) Ev {
		n := size.Size(fromDig(e["n"]))
		mt, err1 := n.MarshalText()
		mj, err2 := n.MarshalJSON()
		if err1 != nil {
			mt = []byte("!error")
		}
		if err2 != nil {
			mj = []byte("!error")
		}
		e["mt"], e["mj"] = S(mt), S(mj)
		{
			k1, k2 := append([]byte(nil), mt...), append([]byte(nil), mj...)
			for i := range mt {
				mt[i] = '#'
			}
			for i := range mj {
				mj[i] = '#'
			}
			m2, e1 := n.MarshalText()
			j2, e2 := n.MarshalJSON()
			if e1 != nil || e2 != nil {
				m2, j2 = []byte("!error"), []byte("!error")
			}
			e["mt2"], e["mj2"] = S(m2), S(j2)
			mt, mj = k1, k2
			h1, _ := n.MarshalText()
			h2, _ := n.MarshalJSON()
			h3, _ := size.DefaultFormatter(nil, n, size.FormatPretty)
			oth := n/3 + 12345
			_, _ = oth.MarshalText()
			_, _ = oth.MarshalJSON()
			_, _ = size.DefaultFormatter(nil, oth, size.FormatPretty)
			e["held"], e["heldj"], e["heldp"] = S(h1), S(h2), S(h3)
		}
		e["str"], e["pretty"], e["html"] = S(n.String()), S(n.PrettyString()), S(string(n.PrettyHTML()))
		{
			// strings the caller keeps while other sizes are rendered
			hs, hp, hh := n.String(), n.PrettyString(), n.PrettyHTML()
			oth := n/7 + 4097
			_, _, _ = oth.String(), oth.PrettyString(), oth.PrettyHTML()
			_ = (oth + 1).String()
			e["helds"], e["heldps"], e["heldh"] = S(hs), S(hp), S(string(hh))
		}
		f2, _ := size.DefaultFormatter(nil, n, size.FormatHTML)
		e["f2"] = S(f2)
		e["bs"] = S(n.BytesString())
		e["bjn"] = S(string(n.BytesJSONNumber()))
		sv, su := n.Shorten()
		e["sv"], e["su"] = dig(sv), su
		var a size.Size = 987654321
		e["ut"] = sback(a, a.UnmarshalText(append([]byte(nil), mt...)))
		a = 987654321
		e["uj"] = sback(a, a.UnmarshalJSON(append([]byte(nil), mj...)))
		// containers through encoding/json
		st := sizeStruct{A: n, P: &n}
		b, err := json.Marshal(st)
		var st2 sizeStruct
		if err == nil {
			err = json.Unmarshal(b, &st2)
		}
		if err == nil && (st2.P == nil || *st2.P != st2.A) {
			err = fmt.Errorf("pointer field differs")
		}
		e["cs"] = sback(st2.A, err)
		b, err = json.Marshal([]size.Size{n, 0, n})
		var sl []size.Size
		if err == nil {
			err = json.Unmarshal(b, &sl)
		}
		if err == nil && (len(sl) != 3 || sl[1] != 0 || sl[2] != sl[0]) {
			err = fmt.Errorf("slice differs")
		}
		var first size.Size
		if len(sl) > 0 {
			first = sl[0]
		}
		e["csl"] = sback(first, err)
		b, err = json.Marshal(map[string]size.Size{"k": n})
		var mp map[string]size.Size
		if err == nil {
			err = json.Unmarshal(b, &mp)
		}
		e["cm"] = sback(mp["k"], err)
		e["ps"] = sback(size.DefaultParser(n.String(), 0))
		// one read buffer: this size in bytes, then refilled with its neighbour (last bit flipped: the
		// same number of digits) and parsed again
		r1, err := size.DefaultParser(reused([]byte(strconv.FormatUint(uint64(n), 10))), 0)
		e["reuse1"] = sback(r1, err)
		r2, err := size.DefaultParser(reused([]byte(strconv.FormatUint(uint64(n)^1, 10))), 0)
		e["reuse2"] = sback(r2, err)
		// the pretty rendering in a caller's buffer, parsed twice without the caller touching it
		pb := []byte(n.PrettyString())
		keep := string(pb)
		p1, err := size.DefaultParser(pb, 0)
		e["pp1"] = sback(p1, err)
		p2, err := size.DefaultParser(pb, 0)
		e["pp2"] = sback(p2, err)
		e["ppkept"] = string(pb) == keep
		e["pp"] = sback(size.DefaultParser([]byte(n.PrettyString()), 0))
		return e
	}

	// DefaultParser in text or JSON mode (C08, C12, C18). For JSON mode the request carries the
	// abstract document ("doc") and whether the bytes are exactly one well-formed value ("wf").
	ops["size.parse"] = func(e Ev) Ev {
		in := fromB(e["in"])
		rule := size.Rule(num(e["rule"]))
		var s size.Size
		var err error
		p := try(func() {
			switch str(e["T"]) {
			case "s":
				s, err = size.DefaultParser(string(in), rule)
			case "S":
				s, err = size.DefaultParser(myStr(in), rule)
			case "B":
				s, err = size.DefaultParser(myBytes(reused(in)), rule)
			default:
				s, err = size.DefaultParser(reused(in), rule)
			}
		})
		e["panic"] = p
		e["ok"] = err == nil && !p
		e["v"] = dig(uint64(s))
		e["typed"] = err != nil && sizeTyped(err)
		e["is"] = sizeIs(err)
		e["echo"] = err != nil && containsBytes(err.Error(), in)
		if _, has := e["wf"]; has {
			// cross-check of the generator's claim against encoding/json (harness self-check H.wf)
			e["jsonvalid"] = json.Valid(in)
		}
		return e
	}

	ops["size.new"] = func(e Ev) Ev { return sizeNew(e) }
	ops["size.bytes"] = func(e Ev) Ev { return sizeBytes(e) }
	ops["constraint.kind"] = func(e Ev) Ev { return constraintKind(e) }
}

// derived numeric types (the property speaks of derived types too)
type (
	myInt8    int8
	myUint16  uint16
	myInt64   int64
	myUint64  uint64
	myFloat32 float32
	myFloat64 float64
)

// classify computes, with math/big, the exact class of a numeric value: "int" with the digits
// of a non-negative integer, or "neg" / "frac" / "nan" / "inf".
func classify(f *big.Float, nan bool, inf bool) (string, []int) {
	if nan {
		return "nan", []int{0}
	}
	if inf {
		return "inf", []int{0}
	}
	if f.Sign() == 0 {
		return "int", []int{0}
	}
	if f.Sign() < 0 {
		return "neg", []int{0}
	}
	if !f.IsInt() {
		return "frac", []int{0}
	}
	i, _ := f.Int(nil)
	return "int", digStr(i.String())
}

func newFor[N constraint.Numbers](v N, unit string) (size.Size, error, bool) {
	var s size.Size
	var err error
	p := try(func() { s, err = size.New(v, unit) })
	return s, err, p
}

func parseI(repr string, bits int) int64 {
	n, err := strconv.ParseInt(repr, 10, bits)
	if err != nil {
		fatal("size.new repr %q: %v", repr, err)
	}
	return n
}
func parseU(repr string, bits int) uint64 {
	n, err := strconv.ParseUint(repr, 10, bits)
	if err != nil {
		fatal("size.new repr %q: %v", repr, err)
	}
	return n
}

// size.new {kind, repr, unit}: repr is the decimal text for integer kinds and the hexadecimal
// IEEE bit pattern for float kinds.
func sizeNew(e Ev) Ev {
	kind, repr, unit := str(e["kind"]), str(e["repr"]), string(fromB(e["unit"]))
	var s size.Size
	var err error
	var p bool
	f := new(big.Float).SetPrec(200)
	nan, inf := false, false
	setI := func(n int64) { f.SetInt64(n) }
	setU := func(n uint64) { f.SetUint64(n) }
	setF := func(x float64) {
		if math.IsNaN(x) {
			nan = true
		} else if math.IsInf(x, 0) {
			inf = true
		} else {
			f.SetFloat64(x)
		}
	}
	switch kind {
	case "int":
		n := parseI(repr, 64)
		setI(n)
		s, err, p = newFor(int(n), unit)
	case "int8":
		n := parseI(repr, 8)
		setI(n)
		s, err, p = newFor(int8(n), unit)
	case "int16":
		n := parseI(repr, 16)
		setI(n)
		s, err, p = newFor(int16(n), unit)
	case "int32":
		n := parseI(repr, 32)
		setI(n)
		s, err, p = newFor(int32(n), unit)
	case "int64":
		n := parseI(repr, 64)
		setI(n)
		s, err, p = newFor(n, unit)
	case "uint":
		n := parseU(repr, 64)
		setU(n)
		s, err, p = newFor(uint(n), unit)
	case "uint8":
		n := parseU(repr, 8)
		setU(n)
		s, err, p = newFor(uint8(n), unit)
	case "uint16":
		n := parseU(repr, 16)
		setU(n)
		s, err, p = newFor(uint16(n), unit)
	case "uint32":
		n := parseU(repr, 32)
		setU(n)
		s, err, p = newFor(uint32(n), unit)
	case "uint64":
		n := parseU(repr, 64)
		setU(n)
		s, err, p = newFor(n, unit)
	case "float32":
		b, _ := strconv.ParseUint(repr, 16, 32)
		x := math.Float32frombits(uint32(b))
		setF(float64(x))
		s, err, p = newFor(x, unit)
	case "float64":
		b, _ := strconv.ParseUint(repr, 16, 64)
		x := math.Float64frombits(b)
		setF(x)
		s, err, p = newFor(x, unit)
	case "myInt8":
		n := parseI(repr, 8)
		setI(n)
		s, err, p = newFor(myInt8(n), unit)
	case "myUint16":
		n := parseU(repr, 16)
		setU(n)
		s, err, p = newFor(myUint16(n), unit)
	case "myInt64":
		n := parseI(repr, 64)
		setI(n)
		s, err, p = newFor(myInt64(n), unit)
	case "myUint64":
		n := parseU(repr, 64)
		setU(n)
		s, err, p = newFor(myUint64(n), unit)
	case "myFloat32":
		b, _ := strconv.ParseUint(repr, 16, 32)
		x := math.Float32frombits(uint32(b))
		setF(float64(x))
		s, err, p = newFor(myFloat32(x), unit)
	case "myFloat64":
		b, _ := strconv.ParseUint(repr, 16, 64)
		x := math.Float64frombits(b)
		setF(x)
		s, err, p = newFor(myFloat64(x), unit)
	default:
		fatal("size.new: kind %q", kind)
	}
	e["cls"], e["digits"] = classify(f, nan, inf)
	e["panic"] = p
	e["ok"] = err == nil && !p
	e["v"] = dig(uint64(s))
	return e
}

func bytesFor[N constraint.Numbers](s size.Size) (ok bool, digits []int) {
	v, ok := size.Bytes[N](s)
	f := new(big.Float).SetPrec(200)
	switch x := any(v).(type) {
	case float32:
		f.SetFloat64(float64(x))
	case float64:
		f.SetFloat64(x)
	case myFloat32:
		f.SetFloat64(float64(x))
	case myFloat64:
		f.SetFloat64(float64(x))
	default:
		// integer kinds: print with %d
		return ok, digOrNeg(fmt.Sprintf("%d", v))
	}
	if !f.IsInt() || f.Sign() < 0 {
		return ok, []int{-1}
	}
	i, _ := f.Int(nil)
	return ok, digStr(i.String())
}

func digOrNeg(s string) []int {
	if len(s) > 0 && s[0] == '-' {
		return []int{-1}
	}
	return digStr(s)
}

// base kind name of a (possibly derived) kind, as the specification's tables know it
func baseKind(kind string) string {
	switch kind {
	case "myInt8":
		return "int8"
	case "myUint16":
		return "uint16"
	case "myInt64":
		return "int64"
	case "myUint64":
		return "uint64"
	case "myFloat32":
		return "float32"
	case "myFloat64":
		return "float64"
	}
	return kind
}

func sizeBytes(e Ev) Ev {
	s := size.Size(fromDig(e["n"]))
	kind := str(e["gokind"])
	var ok bool
	var d []int
	switch kind {
	case "int":
		ok, d = bytesFor[int](s)
	case "int8":
		ok, d = bytesFor[int8](s)
	case "int16":
		ok, d = bytesFor[int16](s)
	case "int32":
		ok, d = bytesFor[int32](s)
	case "int64":
		ok, d = bytesFor[int64](s)
	case "uint":
		ok, d = bytesFor[uint](s)
	case "uint8":
		ok, d = bytesFor[uint8](s)
	case "uint16":
		ok, d = bytesFor[uint16](s)
	case "uint32":
		ok, d = bytesFor[uint32](s)
	case "uint64":
		ok, d = bytesFor[uint64](s)
	case "float32":
		ok, d = bytesFor[float32](s)
	case "float64":
		ok, d = bytesFor[float64](s)
	case "myInt8":
		ok, d = bytesFor[myInt8](s)
	case "myUint16":
		ok, d = bytesFor[myUint16](s)
	case "myInt64":
		ok, d = bytesFor[myInt64](s)
	case "myUint64":
		ok, d = bytesFor[myUint64](s)
	case "myFloat32":
		ok, d = bytesFor[myFloat32](s)
	case "myFloat64":
		ok, d = bytesFor[myFloat64](s)
	default:
		fatal("size.bytes: kind %q", kind)
	}
	e["kind"] = baseKind(kind)
	e["ok"], e["v"] = ok, d
	return e
}

// bitPattern is the two's-complement (integers) or IEEE 754 (floats) bit pattern of a numeric
// value in its own width, most significant bit first.
func bitPattern(v any, bits int) []int {
	rv := reflect.ValueOf(v)
	var u uint64
	switch {
	case rv.CanFloat() && bits == 32:
		u = uint64(math.Float32bits(float32(rv.Float())))
	case rv.CanFloat():
		u = math.Float64bits(rv.Float())
	case rv.CanInt():
		u = uint64(rv.Int())
	default:
		u = rv.Uint()
	}
	out := make([]int, bits)
	for i := 0; i < bits; i++ {
		out[i] = int(u >> uint(bits-1-i) & 1)
	}
	return out
}

// kindPatterns observes constraint.SmallestNonzero for every kind and constraint.Max / Min for the
// float kinds (whose decimal digits would not fit the integer columns of the event).
func kindPatterns[N constraint.Numbers]() (snz, fmax, fmin []int) {
	bits := constraint.SizeBits[N]()
	snz = bitPattern(constraint.SmallestNonzero[N](), bits)
	fmax, fmin = []int{}, []int{}
	if constraint.IsFloat[N]() {
		fmax, fmin = bitPattern(constraint.Max[N](), bits), bitPattern(constraint.Min[N](), bits)
	}
	return
}

func kindOf[N constraint.Numbers]() (max, minabs []int, bits int, isf, iss bool) {
	lastSnz, lastFmax, lastFmin = kindPatterns[N]()
	isf, iss = constraint.IsFloat[N](), constraint.IsSigned[N]()
	bits = constraint.SizeBits[N]()
	if isf {
		return []int{0}, []int{0}, bits, isf, iss
	}
	max = digStr(fmt.Sprintf("%d", constraint.Max[N]()))
	mn := fmt.Sprintf("%d", constraint.Min[N]())
	if mn[0] == '-' {
		mn = mn[1:]
	}
	return max, digStr(mn), bits, isf, iss
}

var lastSnz, lastFmax, lastFmin []int // filled by kindOf for the event being built (the harness core is sequential)

var kindMu sync.Mutex // the pattern variables above belong to one event at a time, also in the concurrent leg

func constraintKind(e Ev) Ev {
	kindMu.Lock()
	defer kindMu.Unlock()
	var max, mn []int
	var bits int
	var isf, iss bool
	kind := str(e["gokind"])
	switch kind {
	case "int":
		max, mn, bits, isf, iss = kindOf[int]()
	case "int8":
		max, mn, bits, isf, iss = kindOf[int8]()
	case "int16":
		max, mn, bits, isf, iss = kindOf[int16]()
	case "int32":
		max, mn, bits, isf, iss = kindOf[int32]()
	case "int64":
		max, mn, bits, isf, iss = kindOf[int64]()
	case "uint":
		max, mn, bits, isf, iss = kindOf[uint]()
	case "uint8":
		max, mn, bits, isf, iss = kindOf[uint8]()
	case "uint16":
		max, mn, bits, isf, iss = kindOf[uint16]()
	case "uint32":
		max, mn, bits, isf, iss = kindOf[uint32]()
	case "uint64":
		max, mn, bits, isf, iss = kindOf[uint64]()
	case "float32":
		max, mn, bits, isf, iss = kindOf[float32]()
	case "float64":
		max, mn, bits, isf, iss = kindOf[float64]()
	case "myInt8":
		max, mn, bits, isf, iss = kindOf[myInt8]()
	case "myUint16":
		max, mn, bits, isf, iss = kindOf[myUint16]()
	case "myInt64":
		max, mn, bits, isf, iss = kindOf[myInt64]()
	case "myUint64":
		max, mn, bits, isf, iss = kindOf[myUint64]()
	case "myFloat32":
		max, mn, bits, isf, iss = kindOf[myFloat32]()
	case "myFloat64":
		max, mn, bits, isf, iss = kindOf[myFloat64]()
	default:
		fatal("constraint.kind: %q", kind)
	}
	e["kind"] = baseKind(kind)
	e["max"], e["minabs"], e["bits"], e["isfloat"], e["issigned"] = max, mn, bits, isf, iss
	e["snz"], e["fmax"], e["fmin"] = lastSnz, lastFmax, lastFmin
	return e
}
