package main

import "strings"

func isIdentChar(c byte) bool {
	return c >= '0' && c <= '9' || c >= 'a' && c <= 'z' || c >= 'A' && c <= 'Z' || c == '-'
}

// validPre is the harness's own reading of the pre-release grammar, used only to build
// universes (the specification re-checks every element: demand H.univ).
func validPre(s string) bool {
	if s == "" {
		return false
	}
	for _, id := range strings.Split(s, ".") {
		if id == "" {
			return false
		}
		digits := true
		for i := 0; i < len(id); i++ {
			if !isIdentChar(id[i]) {
				return false
			}
			if id[i] < '0' || id[i] > '9' {
				digits = false
			}
		}
		if digits && len(id) > 1 && id[0] == '0' {
			return false
		}
	}
	return true
}

func universe(k int) []string {
	out := []string{""}
	enumStrings([]byte("0129aB-."), k, nil, 0, func(s []byte) {
		if validPre(string(s)) {
			out = append(out, string(s))
		}
	})
	return out
}

func bb(ss []string) []any {
	out := make([]any, len(ss))
	for i, s := range ss {
		out[i] = B(s)
	}
	return out
}

func ver(major, minor, patch, pre, build string) Ev {
	return Ev{"major": B(major), "minor": B(minor), "patch": B(patch), "pre": B(pre), "build": B(build)}
}

const u64max = "18446744073709551615"

func init() {
	// C03: entry points x forms x string/[]byte on grammar-generated and mutated texts; Valid link
	drivers["c03"] = func(d *Drv) {
		d.Do(Ev{"op": "sem.set", "max": 1024})
		fns := []struct {
			fn   string
			rule int
		}{{"Parse", 0}, {"ParseVersion", 0}, {"ParseTag", 0}, {"DefaultParser", 0}, {"DefaultParser", 1}}
		parseAll := func(in []byte) {
			for i, f := range fns {
				d.Do(Ev{"op": "sem.parse", "in": B(in), "fn": f.fn, "rule": f.rule, "T": []string{"s", "b"}[(i+len(in))%2]})
			}
			// one read buffer, two records, nothing in between: this text through the []byte
			// instantiation, then the buffer refilled with a text of the same length - its last byte
			// changed (another version or another refusal), or one byte turned into a second dot or a
			// leading zero (a refusal) - and parsed again. Each is judged like any other parse.
			if len(in) > 0 {
				fn := fns[len(in)%4]
				d.Do(Ev{"op": "sem.parse", "in": B(in), "fn": fn.fn, "rule": fn.rule, "T": "b"})
				in2 := append([]byte(nil), in...)
				switch k := len(in) % 3; {
				case k == 0:
					in2[len(in2)-1] = "1234567890"[int(in2[len(in2)-1])%10]
				case k == 1 && len(in2) > 2:
					in2[len(in2)/2] = '.'
				default:
					in2[len(in2)-1] ^= 1
				}
				d.Do(Ev{"op": "sem.parse", "in": B(in2), "fn": fn.fn, "rule": fn.rule, "T": "b"})
			}
			d.S.Boundary()
		}
		num := func() string {
			switch d.R.Intn(10) {
			case 0:
				return "0"
			case 1:
				return u64max
			case 2:
				return "18446744073709551616"
			case 3:
				return "18446744073709551614"
			case 4:
				return "99999999999999999999"
			case 5:
				return "0" + string(rune('0'+d.R.Intn(10)))
			}
			n := 1 + d.R.Intn(25)
			b := make([]byte, n)
			for i := range b {
				b[i] = byte('0' + d.R.Intn(10))
			}
			if d.R.Intn(4) != 0 && b[0] == '0' {
				b[0] = '1'
			}
			return string(b)
		}
		alpha := "0123456789abcXYZ-"
		ident := func(pre bool) string {
			n := 1 + d.R.Intn(6)
			b := make([]byte, n)
			for i := range b {
				b[i] = alpha[d.R.Intn(len(alpha))]
			}
			_ = pre
			return string(b)
		}
		idlist := func(pre bool) string {
			n := 1 + d.R.Intn(5)
			if d.R.Intn(20) == 0 {
				n = 30
			}
			parts := make([]string, n)
			for i := range parts {
				parts[i] = ident(pre)
			}
			return strings.Join(parts, ".")
		}
		gen := func() string {
			s := num() + "." + num() + "." + num()
			if d.R.Intn(2) == 0 {
				s += "-" + idlist(true)
			}
			if d.R.Intn(2) == 0 {
				s += "+" + idlist(false)
			}
			if d.R.Intn(3) == 0 {
				s = "v" + s
			}
			return s
		}
		// fixed corpus: boundaries of every rule of the grammar
		corpus := []string{"", "v", "1", "1.2", "1.2.3", "v1.2.3", "V1.2.3", "vv1.2.3", "1.2.3.4", "01.2.3", "1.02.3", "1.2.03", "0.0.0", "1.2.3-", "1.2.3+", "1.2.3-+b",
			"1.2.3-a", "1.2.3-0", "1.2.3-00", "1.2.3-01", "1.2.3-0a", "1.2.3-a.01", "1.2.3-a.0", "1.2.3-a..b", "1.2.3-.a", "1.2.3-a.", "1.2.3+01", "1.2.3+00.00", "1.2.3+a..b",
			"1.2.3-a+b", "1.2.3+b-a", "1.2.3-a-b+c-d", "1.2.3-a+b+c", "1.2.3-a_b", "1.2.3 ", " 1.2.3", "1.2.3\n", "1.2.3-é", "1.2.3-a\x00", "-1.2.3", "+1.2.3", "1.-2.3", "1..3", ".1.2.3", "1.2.3.",
			u64max + ".0.0", "0." + u64max + ".0", "0.0." + u64max, "18446744073709551616.0.0", "0.18446744073709551616.0", "0.0.18446744073709551616",
			"v" + u64max + "." + u64max + "." + u64max + "-rc.1+build.5", "1.0.0-alpha", "1.0.0-alpha.1", "1.0.0-0.3.7", "1.0.0-x.7.z.92", "1.0.0-x-y-z.--", "1.0.0-alpha+001", "1.0.0+20130313144700",
			"1.0.0-beta+exp.sha.5114f85", "1.0.0+21AF26D3----117B344092BD", "1.0.0-\u212a", "1.0.0+\u017fha", "1.0.0-a\u212ab", "1.0.0-\u0131", "1.0.0-\u00df", "1.0.0-\uff41", "1.0.0-a.\u212a.b", "1.0.0+\u212a", "1.2.3-1.2.3", "1.2.3--", "1.2.3---", "1.2.3-+", "1.2.3+-", "1.2.3+-.-", "1.2.3-0.0.0", "1.2.3-0.00"}
		for i, c := range corpus {
			if d.Mine(i) {
				parseAll([]byte(c))
			}
		}
		if d.Shard == 3%d.NShards {
			for _, cf := range confusables {
				for _, t := range []string{"1.2.3-a" + cf, "1.2.3-" + cf, "1.2.3+" + cf, "1." + cf + ".3", cf + ".2.3", "1.2.3-rc." + cf + ".1", "v1.2.3-" + cf + "a"} {
					parseAll([]byte(t))
				}
				d.Do(Ev{"op": "sem.valid", "v": ver("1", "2", "3", "a"+cf, "")})
				d.Do(Ev{"op": "sem.valid", "v": ver("1", "2", "3", "", cf)})
			}
		}
		nr := 4000
		if d.Thorough() {
			nr = 150000
		}
		for i := 0; i < nr/d.NShards; i++ {
			s := []byte(gen())
			parseAll(s)
			if d.R.Intn(3) == 0 && len(s) > 0 { // near-valid mutation
				m := append([]byte{}, s...)
				switch d.R.Intn(4) {
				case 0:
					m[d.R.Intn(len(m))] = byte(d.R.Intn(256))
				case 1:
					p := d.R.Intn(len(m) + 1)
					m = append(append(append([]byte{}, m[:p]...), ".+-0v"[d.R.Intn(5)]), m[p:]...)
				case 2:
					p := d.R.Intn(len(m))
					m = append(append([]byte{}, m[:p]...), m[p+1:]...)
				default:
					m = append(m, '\n')
				}
				parseAll(m)
			}
		}
		// Valid <=> round trip, on arbitrary pre-release / build strings
		bad := []string{"\u212a", "\u017f", "a\u212a", "", "a", "a.b", "0", "01", "a..b", ".a", "a.", "a+b", "a b", "é", "a_b", "-", "--", "0a", "00", "1.2.3", "x\x00", "a.0.b", "a.00.b", "+", "*", " "}
		for i, p := range bad {
			if !d.Mine(i) {
				continue
			}
			for _, b := range bad {
				d.Do(Ev{"op": "sem.valid", "v": ver("1", "2", "3", p, b)})
			}
			d.S.Boundary()
		}
		for i := 0; i < nr/d.NShards; i++ {
			p, b := "", ""
			if d.R.Intn(4) != 0 {
				p = idlist(true)
			}
			if d.R.Intn(3) != 0 {
				b = idlist(false)
			}
			if d.R.Intn(5) == 0 && len(p) > 0 {
				x := []byte(p)
				x[d.R.Intn(len(x))] = "+.* _0"[d.R.Intn(6)]
				p = string(x)
			}
			if d.R.Intn(7) == 0 && len(b) > 0 {
				x := []byte(b)
				x[d.R.Intn(len(x))] = "+.* _"[d.R.Intn(5)]
				b = string(x)
			}
			n1, n2, n3 := num(), num(), num()
			for _, n := range []*string{&n1, &n2, &n3} {
				if len(*n) > 20 || len(*n) == 20 && *n > u64max || len(*n) > 1 && (*n)[0] == '0' {
					*n = "7"
				}
			}
			d.Do(Ev{"op": "sem.valid", "v": ver(n1, n2, n3, p, b)})
			d.S.Boundary()
		}
		// limits
		if d.Shard == 0 {
			long := "1.2.3-" + strings.Repeat("a", 2000)
			for _, max := range []int{0, 1, 5, 1023, 1024, 1025} {
				d.Do(Ev{"op": "sem.set", "max": max})
				for _, n := range []int{0, 1, 5, 6, 7, 1023, 1024, 1025, 1026, 2006} {
					parseAll([]byte(long[:n]))
					if n > 0 {
						parseAll([]byte("v" + long[:n-1]))
					}
				}
				d.Do(Ev{"op": "sem.valid", "v": ver("1", "2", "3", strings.Repeat("a", 1017), "")})
				d.Do(Ev{"op": "sem.valid", "v": ver("1", "2", "3", strings.Repeat("a", 1018), "")})
				d.Do(Ev{"op": "sem.valid", "v": ver("1", "2", "3", strings.Repeat("a", 1019), "")})
			}
			d.Do(Ev{"op": "sem.set", "max": 1024})
		}
	}

	// C06 / C14: precedence. Rows over the universe of valid pre-release strings, full version
	// pairs with boundary cores and build metadata, the SemVer example chain, random long lists.
	drivers["c06"] = func(d *Drv) {
		d.Do(Ev{"op": "sem.set", "max": 1024})
		k := 3
		if d.Thorough() {
			k = 4
		}
		u := universe(k)
		extra := []string{"a01", "a1", "a0x", "a02", "a2", "a10", "rc10", "rc9", "rc1", "rc01", "rc-10", "rc.10", "rc.9", "alpha", "alpha.1", "alpha.beta", "beta", "beta.2", "beta.11", "rc.1",
			"0", "1", "2", "9", "10", "11", "99", "100", "18446744073709551615", "18446744073709551616", "99999999999999999999999", "x.7.z.92", "x-y-z.--", "0.3.7",
			"a.b", "a-b", "a.b.c", "a.b-c", "A", "Z", "a", "z", "-", "--", "-a", "a-", "1a", "a1b", "1-", "a.1", "a.a", "a.-", "a.1.1", "a.1.a", "00a", "0a", "0-0"}
		seen := map[string]bool{}
		for _, s := range u {
			seen[s] = true
		}
		if !d.Thorough() {
			for _, s := range extra {
				if !seen[s] {
					u = append(u, s)
					seen[s] = true
				}
			}
		}
		d.Do(Ev{"op": "sem.univ", "u": bb(u)})
		for i := range u {
			if d.Mine(i) {
				d.Do(Ev{"op": "sem.row", "ai": i + 1})
				d.S.Boundary()
			}
		}
		if d.Thorough() {
			// a second universe: the hand-picked identifiers and random long lists, all pairs
			d.S.Close()
			u2 := append([]string{""}, extra...)
			for i := 0; i < 400; i++ {
				n := 1 + d.R.Intn(6)
				parts := make([]string, n)
				for j := range parts {
					switch d.R.Intn(4) {
					case 0:
						parts[j] = []string{"0", "1", "9", "10", "18446744073709551615", "18446744073709551616", "123456789012345678901234"}[d.R.Intn(7)]
					case 1:
						parts[j] = []string{"alpha", "beta", "rc", "RC", "x", "-"}[d.R.Intn(6)]
					default:
						b := make([]byte, 1+d.R.Intn(4))
						for q := range b {
							b[q] = "0129aB-z"[d.R.Intn(8)]
						}
						parts[j] = string(b)
					}
				}
				s := strings.Join(parts, ".")
				if validPre(s) {
					u2 = append(u2, s)
				}
			}
			d.Do(Ev{"op": "sem.univ", "u": bb(u2)})
			for i := range u2 {
				if d.Mine(i) {
					d.Do(Ev{"op": "sem.row", "ai": i + 1})
					d.S.Boundary()
				}
			}
		}
		// full versions: cores with 2^64-1 boundaries x pre-releases x builds, through every entry point
		cores := [][3]string{{"0", "0", "0"}, {"1", "0", "0"}, {"1", "0", "1"}, {"1", "1", "0"}, {"0", "9", "9"}, {"2", "0", "0"}, {"10", "0", "0"}, {"9", "0", "0"},
			{u64max, "0", "0"}, {"18446744073709551614", u64max, "0"}, {"9223372036854775808", "0", "1"}, {"1", "9223372036854775808", "0"}, {"1", "9223372036854775809", "9223372036854775808"}, {"9223372036854775807", "1", "9223372036854775808"}, {u64max, u64max, u64max}, {u64max, u64max, "18446744073709551614"}, {"1", "10", "2"}, {"1", "9", "10"}, {"1", "2", "10"}, {"1", "2", "9"}}
		pres := []string{"", "alpha", "alpha.1", "alpha.beta", "beta", "beta.2", "beta.11", "rc.1", "1", "2", "10", "a.b", "a-b", "a01", "a1", "rc10", "rc9"}
		builds := []string{"", "b", "001", "exp.sha.5114f85"}
		n := 0
		for _, ca := range cores {
			for _, cb := range cores {
				for _, pa := range pres {
					for _, pb := range pres {
						n++
						if !d.Mine(n) {
							continue
						}
						if !d.Thorough() && ca != cb && (n%7 != 0) {
							continue
						}
						if !d.Thorough() && n%3 != 0 && ca == cb && pa != pb {
							// keep every same-core pair in quick as well
						}
						d.Do(Ev{"op": "sem.cmp", "a": ver(ca[0], ca[1], ca[2], pa, builds[n%4]), "b": ver(cb[0], cb[1], cb[2], pb, builds[(n/4)%4])})
					}
				}
				d.S.Boundary()
			}
		}
		// the SemVer specification's own chain, all ordered pairs
		chain := []string{"alpha", "alpha.1", "alpha.beta", "beta", "beta.2", "beta.11", "rc.1", ""}
		if d.Shard == 0 {
			for _, a := range chain {
				for _, b := range chain {
					d.Do(Ev{"op": "sem.cmp", "a": ver("1", "0", "0", a, ""), "b": ver("1", "0", "0", b, "")})
				}
			}
			// a related pair compared in ONE direction only (as a sort does), then the two-way event on the
			// identifiers it shares a prefix or suffix with; pairs that nothing else in this process compares
			for _, xy := range [][2]string{{"12", "7"}, {"8", "13"}, {"31", "4"}, {"205", "88"}, {"0", "14"}} {
				for _, fix := range []string{"rc", "a", "-", "x-", "Z"} {
					d.Do(Ev{"op": "sem.one", "a": ver("1", "0", "0", fix+xy[0], ""), "b": ver("1", "0", "0", fix+xy[1], "")})
					d.Do(Ev{"op": "sem.cmp", "a": ver("1", "0", "0", xy[0], ""), "b": ver("1", "0", "0", xy[1], "")})
					d.Do(Ev{"op": "sem.one", "a": ver("2", "0", "0", xy[0]+fix, ""), "b": ver("2", "0", "0", xy[1]+fix, "")})
					d.Do(Ev{"op": "sem.cmp", "a": ver("2", "0", "0", xy[0], ""), "b": ver("2", "0", "0", xy[1], "")})
				}
			}
			// identifiers that share a prefix or a suffix with the pair compared just before: what was
			// learnt about "rc10" against "rc9" says nothing about "10" against "9" (and back)
			for _, xy := range [][2]string{{"10", "9"}, {"9", "10"}, {"2", "11"}, {"100", "99"}, {"7", "7"}, {"0", "10"}} {
				for _, fix := range []string{"rc", "a", "-", "x-", "Z"} {
					for _, tr := range [][2]string{{fix + xy[0], fix + xy[1]}, {xy[0], xy[1]}, {fix + xy[0], fix + xy[1]},
						{xy[0] + fix, xy[1] + fix}, {xy[0], xy[1]}, {xy[1], xy[0]}, {"b." + xy[0], "b." + xy[1]}} {
						d.Do(Ev{"op": "sem.cmp", "a": ver("1", "0", "0", tr[0], ""), "b": ver("1", "0", "0", tr[1], "")})
					}
				}
			}
			// invalid operands: the string helpers must fail, and only then
			for _, p := range []string{"a..b", "01", "a+b", "é", " "} {
				d.Do(Ev{"op": "sem.cmp", "a": ver("1", "0", "0", p, ""), "b": ver("1", "0", "0", "a", "")})
				d.Do(Ev{"op": "sem.cmp", "a": ver("1", "0", "0", "a", ""), "b": ver("1", "0", "0", "a", p)})
			}
		}
	}

	// C14: next-major/minor/patch on every version of the universe and at the 2^64 boundary
	drivers["c14"] = func(d *Drv) {
		d.Do(Ev{"op": "sem.set", "max": 1024})
		// string helpers on raw texts: all ordered pairs (including identical operands) of a corpus
		// of valid and invalid version and tag texts
		texts := []string{"", "1.0", "1.0.0", "v1.0.0", "1.0.0-a", "v1.0.0-a", "1.0.0-a.1", "1.0.0-a.b+x", "1.0.0+x", "v1.0.0+y", "01.0.0", "1.0.0-01", "1.0.0-a..b", "1.0.0-",
			"1.0.0+", "V1.0.0", "vv1.0.0", "1.0.0 ", "2.0.0", "v2.0.0", "1.0.0-beta.2", "1.0.0-beta.11", "18446744073709551615.0.0", "18446744073709551616.0.0", "v18446744073709551616.0.0",
			"1.0.0-a01", "1.0.0-a1", "x", "1.0.0\n", "v"}
		for i, a := range texts {
			if !d.Mine(i) {
				continue
			}
			for _, b := range texts {
				d.Do(Ev{"op": "sem.htext", "a": B(a), "b": B(b)})
			}
			d.S.Boundary()
		}
		u := universe(3)
		nums := []string{"0", "1", "9", "10", "4294967295", "4294967296", "9223372036854775807", "9223372036854775808", "18446744073709551613", "18446744073709551614", u64max}
		n := 0
		for _, a := range nums {
			for _, b := range nums {
				for _, c := range nums {
					n++
					if !d.Mine(n) {
						continue
					}
					pre := u[n%len(u)]
					build := []string{"", "b.1", "001"}[n%3]
					d.Do(Ev{"op": "sem.next", "v": ver(a, b, c, pre, build)})
				}
			}
			d.S.Boundary()
		}
		for i, p := range u {
			if d.Mine(i) {
				d.Do(Ev{"op": "sem.next", "v": ver("1", "2", "3", p, "")})
				d.Do(Ev{"op": "sem.next", "v": ver(u64max, "0", u64max, p, "x")})
			}
		}
	}
}
