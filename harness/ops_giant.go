package main

import (
	"bytes"
	"errors"
	"runtime"
	"strings"

	"go.lstv.dev/util/date"
	"go.lstv.dev/util/roman"
	"go.lstv.dev/util/sem"
	"go.lstv.dev/util/size"
	"go.lstv.dev/util/uu"
)

// Very long inputs (megabytes) cannot be written into a trace byte by byte: a "giant" event
// describes its input as sa ++ unit^n ++ sb (comparison: a = unit^n ++ sa, b = unit^n ++ sb) and
// records, besides the outcome, what the call cost: bytes allocated per input byte and the
// goroutine stack in use when it returned. The call runs under the limit given in the event
// (set and restored inside the operation, so no configuration changes hands).
//
// A call that never returns normally because the runtime aborts the process (stack exhaustion,
// out of memory) cannot be recorded by the process itself: the request is written to an intent
// file before the call and removed afterwards (Drv.Do), so the dead process leaves its last
// request behind.
func init() {
	ops["giant"] = func(e Ev) Ev {
		pkg := str(e["pkg"])
		unit, sa, sb := fromB(e["unit"]), fromB(e["sa"]), fromB(e["sb"])
		n, max := num(e["n"]), num(e["max"])
		body := bytes.Repeat(unit, n)
		var in, a, b []byte
		if pkg == "sem.cmp" {
			a = append(append(make([]byte, 0, len(body)+len(sa)), body...), sa...)
			b = append(append(make([]byte, 0, len(body)+len(sb)), body...), sb...)
			e["len"] = len(a)
		} else {
			in = append(append(append(make([]byte, 0, len(sa)+len(body)+len(sb)), sa...), body...), sb...)
			e["len"] = len(in)
		}
		body = nil
		var err error
		var long error
		res := []int{}
		okv := 0
		call := func() {
			switch pkg {
			case "sem.cmp":
				as, bs := string(a), string(b)
				res = append(res, sem.DefaultComparePreRelease(as, bs))
				if n <= 1<<20 {
					res = append(res, sem.DefaultComparePreRelease(a, bs))
					res = append(res, sem.Ver{Major: 1, PreRelease: as}.Compare(sem.Ver{Major: 1, PreRelease: bs}))
				}
			case "date":
				old := date.MaxInputLength
				date.MaxInputLength = max
				defer func() { date.MaxInputLength = old }()
				long = date.ErrInputTooLong
				if str(e["T"]) == "s" {
					_, err = date.DefaultParser(string(in), 0)
				} else {
					_, err = date.DefaultParser(in, 0)
				}
			case "roman":
				old := roman.MaxInputLength
				roman.MaxInputLength = max
				defer func() { roman.MaxInputLength = old }()
				long = roman.ErrInputTooLong
				var v roman.Number
				if str(e["T"]) == "s" {
					v, err = roman.DefaultParser(string(in), 0)
				} else {
					v, err = roman.DefaultParser(in, 0)
				}
				if err == nil {
					okv = clampN(v / 1000)
					err = roman.Valid(in, 0)
				}
			case "sem":
				old := sem.MaxInputLength
				sem.MaxInputLength = max
				defer func() { sem.MaxInputLength = old }()
				long = sem.ErrInputTooLong
				if str(e["T"]) == "s" {
					_, err = sem.DefaultParser(string(in), 0)
				} else {
					_, err = sem.DefaultParser(in, 0)
				}
			case "size":
				old := size.MaxInputLength
				size.MaxInputLength = max
				defer func() { size.MaxInputLength = old }()
				long = size.ErrInputTooLong
				if str(e["T"]) == "s" {
					_, err = size.DefaultParser(string(in), size.DefaultRule)
				} else {
					_, err = size.DefaultParser(in, size.DefaultRule)
				}
			case "uu":
				old := uu.MaxInputLength
				uu.MaxInputLength = max
				defer func() { uu.MaxInputLength = old }()
				long = uu.ErrInputTooLong
				if str(e["T"]) == "s" {
					_, err = uu.DefaultParser(string(in), 0)
				} else {
					_, err = uu.DefaultParser(in, 0)
				}
			default:
				fatal("giant pkg %q", pkg)
			}
		}
		var m0, m1 runtime.MemStats
		var panicked bool
		done := make(chan struct{})
		go func() { // a goroutine of its own: its stack starts small, so growth is the call's
			defer close(done)
			runtime.GC()
			runtime.ReadMemStats(&m0)
			panicked = try(call)
			runtime.ReadMemStats(&m1)
		}()
		<-done
		e["panic"] = panicked
		e["ok"] = err == nil && !panicked
		e["okv"] = okv
		e["long"] = err != nil && long != nil && errors.Is(err, long)
		msg := ""
		if err != nil {
			msg = err.Error()
		}
		l := num(e["len"])
		e["echo"] = err != nil && l >= 64 && (len(msg) > 1024 || strings.Contains(msg, string(in[:32])))
		e["res"] = res
		grown := uint64(0)
		if m1.StackInuse > m0.StackInuse {
			grown = m1.StackInuse - m0.StackInuse
		}
		e["stackmb"] = clamp32(int(grown >> 20))
		e["allocx"] = clamp32(int((m1.TotalAlloc - m0.TotalAlloc) / uint64(max1(l))))
		return e
	}
}

func max1(n int) int {
	if n < 1 {
		return 1
	}
	return n
}
