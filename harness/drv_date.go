package main

import "time"

func isLeap(y int) bool { return (y%4 == 0 && y%100 != 0) || y%400 == 0 }
func daysIn(y, m int) int {
	switch m {
	case 1, 3, 5, 7, 8, 10, 12:
		return 31
	case 4, 6, 9, 11:
		return 30
	}
	if isLeap(y) {
		return 29
	}
	return 28
}

var boundaryYears = []int{0, 1, 2, 3, 4, 5, 99, 100, 101, 399, 400, 401, 999, 1000, 1001, 1582, 1583, 1599, 1600, 1601,
	1699, 1700, 1752, 1799, 1800, 1899, 1900, 1901, 1904, 1969, 1970, 1971, 1972, 1996, 1999, 2000, 2001, 2004, 2019, 2020, 2021,
	2022, 2023, 2024, 2038, 2099, 2100, 2101, 2200, 2262, 2263, 2399, 2400, 2401, 4000, 8000, 9000, 9996, 9998, 9999}

func init() {
	// C01: whole-calendar round trips. quick = all days of the boundary years, plus first day,
	// last day, every month end and 02-28/29 of every year 0000..9999, plus long years under
	// raised limits; thorough = every day of 0000..9999 as one day-consecutive chain.
	drivers["c01"] = func(d *Drv) {
		emit := func(y, m, dd, chain int) {
			d.Do(Ev{"op": "date.rt", "y": y, "m": m, "d": dd, "chain": chain})
			d.S.Boundary()
		}
		allDays := func(y0, y1 int) {
			first := true
			for y := y0; y <= y1; y++ {
				for m := 1; m <= 12; m++ {
					for dd := 1; dd <= daysIn(y, m); dd++ {
						c := 1
						if first || d.S.f == nil {
							c = 0
						}
						first = false
						emit(y, m, dd, c)
					}
				}
			}
		}
		d.Do(Ev{"op": "date.set", "max": 10})
		if d.Thorough() {
			allDays(d.Span(0, 9999))
		} else {
			for i, y := range boundaryYears {
				if d.Mine(i) {
					allDays(y, y)
				}
			}
			y0, y1 := d.Span(0, 9999)
			for y := y0; y <= y1; y++ {
				emit(y, 1, 1, 0)
				emit(y, 2, daysIn(y, 2), 0)
				emit(y, 3, 1, 0)
				emit(y, 12, 31, 0)
				if y%7 == 0 {
					for m := 1; m <= 12; m++ {
						emit(y, m, daysIn(y, m), 0)
					}
				}
			}
		}
		// 5-9 digit years under MaxInputLength in {0, 11..15}: texts that fit and texts that do not
		n := 400 / d.NShards
		if d.Thorough() {
			n = 20000 / d.NShards
		}
		for _, max := range []int{0, 11, 12, 13, 14, 15} {
			d.Do(Ev{"op": "date.set", "max": max})
			for _, y := range []int{9999, 10000, 10001, 99999, 100000, 999999, 1000000, 9999999, 10000000, 99999999, 100000000, 999999999, 999999996,
				2024 + 1<<13, 2024 + 1<<16, 2024 + 1<<20, 2024 + 1<<23, 2024 + 1<<24, 2092 + 1<<23, 2024 + 1<<29} {
				for _, md := range [][2]int{{1, 1}, {2, 28}, {2, 29}, {12, 31}, {10, 10}} {
					if md[1] <= daysIn(y, md[0]) {
						emit(y, md[0], md[1], 0)
					}
				}
			}
			for i := 0; i < n; i++ {
				digits := 5 + d.R.Intn(5)
				lo := 1
				for k := 1; k < digits; k++ {
					lo *= 10
				}
				y := lo + d.R.Intn(lo*9)
				m := 1 + d.R.Intn(12)
				emit(y, m, 1+d.R.Intn(daysIn(y, m)), 0)
			}
		}
		d.Do(Ev{"op": "date.set", "max": 10})
	}
}

var _ = time.UTC

func pad(n, w int) string {
	s := itoa(n)
	for len(s) < w {
		s = "0" + s
	}
	return s
}

func itoa(n int) string {
	if n == 0 {
		return "0"
	}
	neg := n < 0
	if neg {
		n = -n
	}
	s := ""
	for n > 0 {
		s = string(rune('0'+n%10)) + s
		n /= 10
	}
	if neg {
		s = "-" + s
	}
	return s
}

func init() {
	// C09: grids of MM x DD for many years in the four separator layouts, single-byte
	// mutations of valid texts, and configuration sweeps (rule x MaxInputLength x string/bytes).
	drivers["c09"] = func(d *Drv) {
		parse := func(in []byte, rule int, T string) {
			d.Do(Ev{"op": "date.parse", "in": B(in), "rule": rule, "T": T})
			d.S.Boundary()
		}
		layouts := func(y string, m, dd int) [][]byte {
			ms, ds := pad(m, 2), pad(dd, 2)
			return [][]byte{[]byte(y + "-" + ms + "-" + ds), []byte(y + ms + ds), []byte(y + "-" + ms + ds), []byte(y + ms + "-" + ds)}
		}
		years := []string{"2000", "2023", "2024", "1900", "0000", "9999", "0004", "0100", "2100", "1600"}
		long := []string{"10000", "99999", "123456", "1234567", "12345678", "123456789", "999999999", "000002024", "00400"}
		mm := []int{0, 1, 2, 3, 4, 5, 6, 7, 8, 9, 10, 11, 12, 13, 14, 19, 20, 21, 29, 30, 31, 32, 99}
		ddq := []int{}
		for i := 0; i <= 33; i++ {
			ddq = append(ddq, i)
		}
		ddq = append(ddq, 39, 40, 41, 50, 99)
		if d.Thorough() {
			for y := 1; y < 60; y++ {
				years = append(years, pad(boundaryYears[y], 4))
			}
			mm, ddq = nil, nil
			for i := 0; i < 100; i++ {
				mm = append(mm, i)
				ddq = append(ddq, i)
			}
		}
		// (1) no limit: every year x MM x DD x 4 layouts, both rule values, both input types
		d.Do(Ev{"op": "date.set", "max": 0})
		k := 0
		for _, y := range append(append([]string{}, years...), long...) {
			for _, m := range mm {
				k++
				if !d.Mine(k) {
					continue
				}
				for _, dd := range ddq {
					for li, text := range layouts(y, m, dd) {
						rule := (m + dd + li) % 2
						T := "s"
						if (m+dd)%3 == 0 {
							T = "b"
						}
						parse(text, rule, T)
						if li == 1 { // basic layout: always under both rules
							parse(text, 1-rule, T)
						}
					}
				}
			}
		}
		// full 100 x 100 grid for two years in quick as well
		if !d.Thorough() {
			for _, y := range []string{"2024", "2023"} {
				for m := 0; m < 100; m++ {
					if !d.Mine(m) {
						continue
					}
					for dd := 0; dd < 100; dd++ {
						parse([]byte(y+"-"+pad(m, 2)+"-"+pad(dd, 2)), 0, "s")
						parse([]byte(y+pad(m, 2)+pad(dd, 2)), 0, "b")
					}
				}
			}
		}
		// (1b) twins of ordinary dates at power-of-two year offsets (keys packed or truncated too
		// narrowly make them collide), parsed right after their twin
		for bi, base := range [][3]int{{2092, 2, 29}, {2024, 2, 29}, {2023, 2, 28}, {1999, 12, 31}, {2100, 3, 1}} {
			if !d.Mine(bi) {
				continue
			}
			for sh := 13; sh <= 29; sh++ {
				for _, md := range [][2]int{{base[1], base[2]}, {2, 29}, {2, 30}, {3, 1}} {
					parse([]byte(pad(base[0], 4)+"-"+pad(md[0], 2)+"-"+pad(md[1], 2)), 0, "s")
					y := base[0] + 1<<uint(sh)
					if y <= 999999999 {
						parse([]byte(itoa(y)+"-"+pad(md[0], 2)+"-"+pad(md[1], 2)), 0, "b")
						parse([]byte(itoa(y)+pad(md[0], 2)+pad(md[1], 2)), 0, "s")
					}
				}
			}
		}
		// (2) all 256 byte values at every position of valid texts
		valid := []string{"2024-02-29", "20240229", "1999-12-31", "0001-01-01", "123456789-10-30", "1234567891030", "10000-01-01"}
		for vi, v := range valid {
			if !d.Mine(vi) {
				continue
			}
			for pos := 0; pos < len(v); pos++ {
				for c := 0; c < 256; c++ {
					b := []byte(v)
					b[pos] = byte(c)
					parse(b, 0, "b")
					if c%16 == 0 {
						parse(b, 1, "s")
					}
				}
			}
			// insertions, deletions, truncations, extensions
			for pos := 0; pos <= len(v); pos++ {
				for _, c := range []byte{'0', '-', ' ', '\n', 0, 0xff, '1'} {
					b := append(append(append([]byte{}, v[:pos]...), c), v[pos:]...)
					parse(b, 0, "s")
				}
				if pos < len(v) {
					parse(append(append([]byte{}, v[:pos]...), v[pos+1:]...), 0, "b")
				}
				parse([]byte(v[:pos]), 0, "s")
			}
		}
		// (2b) digits and separators outside ASCII
		if d.Shard == 1%d.NShards {
			for _, w := range []string{"2024-02-29", "20240229"} {
				for _, cf := range confusables {
					for pos := 0; pos < len(w); pos++ {
						parse([]byte(w[:pos]+cf+w[pos+1:]), 0, "s")
					}
				}
			}
		}
		// (3) configuration sweep over a fixed corpus and seeded random texts
		corpus := [][]byte{{}, []byte("2"), []byte("2024"), []byte("20240229"), []byte("2024-02-29"), []byte("2024-02-30"),
			[]byte("20230229"), []byte("02024-02-29"), []byte("002024-02-29"), []byte("0020240229"), []byte("123456789-12-31"),
			[]byte("1234567891231"), []byte("1234567890-12-31"), []byte("12345678901231"), []byte("2024-2-29"), []byte("2024-02-29 "),
			[]byte(" 2024-02-29"), []byte("2024-02-29\n"), []byte("2024/02/29"), []byte("２０２４-02-29"), []byte("2024-13-01"), []byte("2024-00-10"),
			[]byte("2024-01-00"), []byte("2024-01-32"), []byte("20240001"), []byte("2023-02-29"), []byte("1900-02-29"), []byte("2000-02-29"),
			[]byte("99999-12-31"), []byte("999991231"), []byte("2024-04-31"), []byte("2024-06-31"), []byte("2024-09-31"), []byte("2024-11-31"),
			[]byte("-2024-01-01"), []byte("+2024-01-01"), []byte("2024-01-01T00:00:00Z"), []byte("0000-00-00"), []byte("00000000")}
		nr := 300
		if d.Thorough() {
			nr = 20000
		}
		alpha := []byte("0123456789--")
		for i := 0; i < nr; i++ {
			n := d.R.Intn(18)
			b := make([]byte, n)
			for j := range b {
				b[j] = alpha[d.R.Intn(len(alpha))]
			}
			if d.R.Intn(4) == 0 && n > 0 {
				b[d.R.Intn(n)] = byte(d.R.Intn(256))
			}
			corpus = append(corpus, b)
		}
		if d.Shard == 0 {
			for _, max := range []int{0, 8, 10, 15, 1, 9, 11, 13} {
				d.Do(Ev{"op": "date.set", "max": max})
				for _, rule := range []int{0, 1, 2, 3} {
					for _, c := range corpus {
						parse(c, rule, "s")
						parse(c, rule, "b")
					}
				}
			}
		}
		d.Do(Ev{"op": "date.set", "max": 10})
	}

	// C11: binary codec
	drivers["c11"] = func(d *Drv) {
		unbin := func(in []byte, pre []int) {
			d.Do(Ev{"op": "date.unbin", "in": B(in), "pre": pre})
			d.S.Boundary()
		}
		enc := func(y, m, dd int) {
			d.Do(Ev{"op": "date.bin", "a": []int{y, m, dd}})
			d.S.Boundary()
		}
		yb := func(y int) []byte {
			return []byte{byte(uint32(y) >> 24), byte(uint32(y) >> 16), byte(uint32(y) >> 8), byte(uint32(y))}
		}
		// (1) encode + round trip: all dates of a year range, boundary years, sampled huge years
		y0, y1 := 1990, 2030
		if d.Thorough() {
			y0, y1 = -400, 9999
		}
		a, b := d.Span(y0, y1)
		for y := a; y <= b; y++ {
			for m := 1; m <= 12; m++ {
				for dd := 1; dd <= daysIn(y, m); dd++ {
					enc(y, m, dd)
				}
			}
		}
		ys := []int{-999999999, -999999998, -100000000, -16777217, -16777216, -65537, -65536, -32768, -401, -400, -257, -256, -255, -129, -128, -127, -100, -4, -1,
			0, 1, 127, 128, 255, 256, 257, 32767, 32768, 65535, 65536, 9999, 10000, 16777215, 16777216, 16777217, 100000000, 999999998, 999999999}
		for i, y := range ys {
			if d.Mine(i) {
				for m := 1; m <= 12; m++ {
					enc(y, m, 1)
					enc(y, m, daysIn(y, m))
				}
			}
		}
		nr := 2000
		if d.Thorough() {
			nr = 100000
		}
		for i := 0; i < nr/d.NShards; i++ {
			y := d.R.Intn(1999999999) - 999999999
			m := 1 + d.R.Intn(12)
			enc(y, m, 1+d.R.Intn(daysIn(y, m)))
		}
		// (2) decode grid: (month byte, day byte) x years, valid version and length
		pre := []int{2001, 2, 3}
		gy := []int{2024, 2023}
		if d.Thorough() {
			gy = []int{2024, 2023, 1900, 2000, 0, -1, 9999, 999999999, -999999999}
		}
		for _, y := range gy {
			for mb := 0; mb < 256; mb++ {
				if !d.Mine(mb) {
					continue
				}
				for db := 0; db < 256; db++ {
					if !d.Thorough() && y != 2024 && (mb > 40 && mb < 250) {
						continue
					}
					unbin(append(append([]byte{1}, yb(y)...), byte(mb), byte(db)), pre)
				}
			}
		}
		// (2b) month ends and leap days of every century year and its neighbours (the Gregorian
		// exceptions), far years included
		k19 := 0
		for c := -2400; c <= 10000; c += 100 {
			for _, y := range []int{c - 4, c - 1, c, c + 1, c + 4} {
				k19++
				if !d.Mine(k19) {
					continue
				}
				for m := 1; m <= 12; m++ {
					for _, dd := range []int{28, 29, 30, 31, 32} {
						unbin(append(append([]byte{1}, yb(y)...), byte(m), byte(dd)), pre)
					}
				}
			}
		}
		// (2c) years that differ in one bit, decoded back to back in one process: whatever a decoder
		// remembers about the year it has just seen (a month length, a leap flag) must not answer for
		// a year that shares only some of its bits
		if d.Shard == 0 {
			for _, base := range []int{2024, 2023, 1900, 2000, 2100, 0, -4, -100} {
				for k := 2; k <= 30; k++ {
					for _, y2 := range []int{base + 1<<uint(k), base - 1<<uint(k), base ^ 1<<uint(k)} {
						for _, dd := range []int{29, 28} {
							unbin(append(append([]byte{1}, yb(base)...), 2, byte(dd)), pre)
							unbin(append(append([]byte{1}, yb(y2)...), 2, byte(dd)), pre)
						}
					}
				}
			}
		}
		for i, y := range []int{-999999996, -999999900, -999999600, 999999600, 999999900, 999999996, 100000, 123456700, 400000000, 2147483600, -2147483600, 2147483647, -2147483648} {
			if d.Mine(i) {
				for _, md := range [][2]int{{2, 28}, {2, 29}, {2, 30}, {4, 31}, {12, 31}, {1, 0}, {0, 1}, {13, 1}} {
					unbin(append(append([]byte{1}, yb(y)...), byte(md[0]), byte(md[1])), pre)
				}
			}
		}
		if d.Shard == 0 {
			// (3) all 256 version bytes, all lengths 0..16, with valid and invalid tails
			for v := 0; v < 256; v++ {
				unbin(append(append([]byte{byte(v)}, yb(2024)...), 2, 29), pre)
				unbin([]byte{byte(v)}, pre)
				unbin(append(append([]byte{byte(v)}, yb(2024)...), 2, 29, 0), pre)
			}
			for n := 0; n <= 16; n++ {
				for _, v := range []byte{1, 0, 2, 255} {
					b := make([]byte, n)
					for i := range b {
						b[i] = byte(i + 1)
					}
					if n > 0 {
						b[0] = v
					}
					if n > 6 {
						b[5], b[6] = 2, 28
					}
					unbin(b, pre)
					unbin(b, []int{1, 1, 1})
				}
			}
		}
		// (4) seeded random 7-byte strings (and random lengths)
		for i := 0; i < nr*5/d.NShards; i++ {
			n := 7
			if d.R.Intn(8) == 0 {
				n = d.R.Intn(12)
			}
			b := make([]byte, n)
			for j := range b {
				b[j] = byte(d.R.Intn(256))
			}
			if n > 0 && d.R.Intn(4) != 0 {
				b[0] = 1
			}
			if n == 7 && d.R.Intn(2) == 0 {
				b[5] = byte(d.R.Intn(14))
				b[6] = byte(d.R.Intn(33))
			}
			unbin(b, []int{1999, 12, 31})
		}
	}

	// C07: ordering and arithmetic
	drivers["c07"] = func(d *Drv) {
		d.Do(Ev{"op": "date.today", "st": 1})
		cmp := func(a, b []int) { d.Do(Ev{"op": "date.cmp", "a": a, "b": b}); d.S.Boundary() }
		next := func(a []int) []int {
			y, m, dd := a[0], a[1], a[2]
			if dd < daysIn(y, m) {
				return []int{y, m, dd + 1}
			}
			if m < 12 {
				return []int{y, m + 1, 1}
			}
			return []int{y + 1, 1, 1}
		}
		// (1) adjacent pairs
		var ylist []int
		if d.Thorough() {
			a, b := d.Span(0, 9999)
			for y := a; y <= b; y++ {
				ylist = append(ylist, y)
			}
		} else {
			for i, y := range boundaryYears {
				if d.Mine(i) {
					ylist = append(ylist, y)
				}
			}
		}
		for _, y := range ylist {
			for m := 1; m <= 12; m++ {
				for dd := 1; dd <= daysIn(y, m); dd++ {
					a := []int{y, m, dd}
					n := next(a)
					if n[0] > 9999 {
						continue
					}
					cmp(a, n)
					if dd == 1 || dd >= 28 {
						cmp(n, a)
						cmp(a, a)
					}
				}
			}
		}
		// (2) all pairs of a boundary-rich set
		var set [][]int
		add := func(y, m, dd int) {
			if dd <= daysIn(y, m) {
				set = append(set, []int{y, m, dd})
			}
		}
		by := []int{0, 1, 4, 100, 400, 1582, 1899, 1900, 1901, 1970, 1999, 2000, 2001, 2023, 2024, 2025, 2100, 2262, 9998, 9999}
		if d.Thorough() {
			by = boundaryYears
		}
		for _, y := range by {
			for _, md := range [][2]int{{1, 1}, {1, 31}, {2, 1}, {2, 28}, {2, 29}, {3, 1}, {6, 30}, {7, 1}, {12, 30}, {12, 31}} {
				add(y, md[0], md[1])
			}
		}
		// negative and far years: ordering is claimed for any two dates
		for _, y := range []int{-2147483647, -1500000000, -999999999, -4999999, -1999999, -10000, -9999, -401, -400, -100, -5, -4, -1, 10000, 99999, 100000, 1999999, 4999999, 999999999, 1500000000, 2147483647} {
			for _, md := range [][2]int{{1, 1}, {2, 28}, {2, 29}, {3, 1}, {12, 31}} {
				add(y, md[0], md[1])
			}
		}
		if d.Thorough() {
			for y := 2019; y <= 2026; y++ {
				for m := 1; m <= 12; m++ {
					add(y, m, 1)
					add(y, m, 15)
					add(y, m, daysIn(y, m))
				}
			}
		}
		for i, a := range set {
			if !d.Mine(i) {
				continue
			}
			for _, b := range set {
				cmp(a, b)
			}
		}
		// seeded random pairs
		nr := 3000
		if d.Thorough() {
			nr = 200000
		}
		rd := func() []int {
			y := d.R.Intn(10000)
			m := 1 + d.R.Intn(12)
			return []int{y, m, 1 + d.R.Intn(daysIn(y, m))}
		}
		for i := 0; i < nr/d.NShards; i++ {
			a := rd()
			b := rd()
			if d.R.Intn(3) == 0 {
				b[0] = a[0]
				if b[2] > daysIn(b[0], b[1]) {
					b[2] = 28
				}
			}
			cmp(a, b)
		}
		// (3) Add over grids of (years, months, days) including negative and overflowing
		bases := [][]int{{2024, 2, 29}, {2023, 1, 31}, {2000, 12, 31}, {1900, 3, 1}, {1, 1, 1}, {0, 1, 1}, {9999, 12, 31}, {2024, 8, 31}, {2023, 10, 31}, {1999, 12, 31}, {2100, 2, 28}, {2020, 5, 15}}
		dys := []int{-2024, -400, -100, -4, -1, 0, 1, 3, 4, 100, 400, 7975}
		dms := []int{-1200, -25, -24, -13, -12, -11, -2, -1, 0, 1, 2, 6, 11, 12, 13, 24, 25, 1200}
		dds := []int{-146097, -36525, -1461, -366, -365, -61, -32, -31, -30, -29, -28, -2, -1, 0, 1, 2, 27, 28, 29, 30, 31, 32, 59, 60, 61, 365, 366, 1461, 36525, 146097}
		k := 0
		for _, a := range bases {
			for _, dy := range dys {
				for _, dm := range dms {
					k++
					if !d.Mine(k) {
						continue
					}
					for _, dd := range dds {
						leapBase := a[1] == 2 && a[2] == 29
						if !d.Thorough() && !leapBase && (k+dd)%3 != 0 && !(dy == 0 && dm == 0) && !(dm == 0 && dd == 0) && !(dy == 0 && dd == 0) {
							continue
						}
						d.Do(Ev{"op": "date.add", "a": a, "dy": dy, "dm": dm, "dd": dd})
					}
					d.S.Boundary()
				}
			}
		}
		for i := 0; i < nr/d.NShards; i++ {
			d.Do(Ev{"op": "date.add", "a": rd(), "dy": d.R.Intn(201) - 100, "dm": d.R.Intn(401) - 200, "dd": d.R.Intn(20001) - 10000})
			d.S.Boundary()
		}
		// single-component steps from every month end / leap-day neighbourhood of the boundary years
		for yi, y := range boundaryYears {
			if !d.Mine(yi) {
				continue
			}
			for m := 1; m <= 12; m++ {
				for _, dd := range []int{1, 2, 27, 28, 29, 30, 31} {
					if dd > daysIn(y, m) {
						continue
					}
					a := []int{y, m, dd}
					for n := -4; n <= 4; n++ {
						d.Do(Ev{"op": "date.add", "a": a, "dy": 0, "dm": 0, "dd": n})
					}
					if dd == 1 && m%4 == 1 { // day counts beyond what a time.Duration holds (106 751 days)
						for _, n := range []int{-1000000, -146097, -106752, -106751, 106751, 106752, 146097, 1000000} {
							d.Do(Ev{"op": "date.add", "a": a, "dy": 0, "dm": 0, "dd": n})
						}
					}
					for _, n := range []int{-12, -1, 1, 12} {
						d.Do(Ev{"op": "date.add", "a": a, "dy": 0, "dm": n, "dd": 0})
					}
					for _, n := range []int{-100, -4, -1, 1, 4, 100} {
						if y+n >= 0 && y+n <= 9999 {
							d.Do(Ev{"op": "date.add", "a": a, "dy": n, "dm": 0, "dd": 0})
						}
					}
				}
			}
			d.S.Boundary()
		}
		// (4) AddDuration around multiples of 24h
		for i, a := range append(bases, set[:len(set)/4]...) {
			if !d.Mine(i) {
				continue
			}
			for _, days := range []int{-106751, -36525, -366, -365, -31, -2, -1, 0, 1, 2, 28, 29, 365, 366, 36525, 106750} {
				for _, sn := range [][2]int{{0, 0}, {0, 1}, {0, -1}, {1, 0}, {-1, 0}, {86399, 999999999}, {-86399, -999999999}, {43200, 0}, {-43200, 0}, {3600, -5}, {-3600, 5}} {
					if days == 106750 && sn[0] > 0 || days == -106751 && sn[0] < 0 {
						continue
					}
					d.Do(Ev{"op": "date.adddur", "a": a, "days": days, "secs": sn[0], "nanos": sn[1]})
				}
			}
			d.S.Boundary()
		}
		// (5) Time / Value, FromTime / Scan over fixed zones -12h..+14h near local and UTC midnight
		for i, a := range set {
			if !d.Mine(i) {
				continue
			}
			d.Do(Ev{"op": "date.time", "a": a})
			for _, off := range []int{-43200, -39600, -34200, -18000, -3600, -1, 0, 1, 3600, 12600, 19800, 20700, 34200, 43200, 45900, 50400} {
				for _, hms := range [][4]int{{0, 0, 0, 0}, {0, 0, 0, 1}, {23, 59, 59, 999999999}, {12, 0, 0, 0}, {11, 59, 59, 0}, {13, 0, 0, 0}, {1, 0, 0, 0}, {22, 30, 0, 0}} {
					if !d.Thorough() && (i+off/900+hms[0])%3 != 0 {
						continue
					}
					d.Do(Ev{"op": "date.fromtime", "t": []int{a[0], a[1], a[2], hms[0], hms[1], hms[2], hms[3]}, "off": off})
				}
			}
			d.S.Boundary()
		}
	}

	// C15: the filter state machine over a 60-date window; all (from, to) x nil combinations,
	// every probe of the window, mutation of the caller's variables after construction.
	drivers["c15"] = func(d *Drv) {
		var win [][]int
		cur := []int{2023, 12, 20}
		for len(win) < 24 {
			win = append(win, cur)
			y, m, dd := cur[0], cur[1], cur[2]
			if dd < daysIn(y, m) {
				cur = []int{y, m, dd + 1}
			} else if m < 12 {
				cur = []int{y, m + 1, 1}
			} else {
				cur = []int{y + 1, 1, 1}
			}
		}
		for _, x := range [][]int{{2024, 2, 27}, {2024, 2, 28}, {2024, 2, 29}, {2024, 3, 1}, {2024, 3, 2}, {2023, 2, 28}, {2023, 3, 1},
			{2024, 7, 30}, {2024, 7, 31}, {2024, 8, 1}, {2024, 8, 30}, {2024, 8, 31}, {2024, 9, 1}, {2024, 9, 30}, {2024, 10, 1}, {2024, 10, 31}, {2024, 11, 1},
			{1999, 12, 31}, {2000, 1, 1}, {2000, 2, 29}, {0, 1, 1}, {0, 12, 31}, {1, 1, 1}, {9999, 12, 31}, {9999, 1, 1}, {2025, 1, 1}, {2025, 12, 31}, {2026, 1, 1},
			{2022, 12, 31}, {2023, 1, 1}, {2023, 1, 31}, {2023, 2, 1}, {2024, 12, 31}, {2024, 1, 31}, {2024, 2, 1}, {2024, 4, 30},
			{-1, 12, 31}, {-1500000000, 6, 15}, {1500000000, 6, 15}, {-2147483647, 1, 1}, {2147483647, 12, 31}, {-400, 2, 29}} {
			win = append(win, x)
		}
		if !d.Thorough() {
			// quick: every third date of the window as a bound, every date as a probe
		}
		step := 1
		k := 0
		for fi := -1; fi < len(win); fi += step {
			for ti := -1; ti < len(win); ti += step {
				k++
				if !d.Mine(k) {
					continue
				}
				if !d.Thorough() && fi >= 0 && ti >= 0 && (fi+2*ti)%4 != 0 {
					continue
				}
				from, to := []int{}, []int{}
				if fi >= 0 {
					from = win[fi]
				}
				if ti >= 0 {
					to = win[ti]
				}
				d.Do(Ev{"op": "date.freset", "st": 1})
				d.Do(Ev{"op": "date.vars", "from": from, "to": to, "st": 1})
				e := d.Do(Ev{"op": "date.fbuild", "same": fi == ti, "st": 1})
				if e["ok"] == true {
					// the caller's variables change after construction (sometimes to nil, sometimes swapped)
					switch k % 3 {
					case 0:
						d.Do(Ev{"op": "date.vars", "from": win[(k*7)%len(win)], "to": win[(k*11)%len(win)], "st": 1})
					case 1:
						d.Do(Ev{"op": "date.vars", "from": []int{}, "to": []int{}, "st": 1})
					}
					// the order of the questions varies from filter to filter (what a fresh filter is asked
					// first must not matter); the first two questions are asked again at the end
					for j := range win {
						d.Do(Ev{"op": "date.fcontains", "i": 1, "p": win[(j+k)%len(win)], "st": 1})
					}
					d.Do(Ev{"op": "date.fcontains", "i": 1, "p": win[k%len(win)], "st": 1})
					d.Do(Ev{"op": "date.fcontains", "i": 1, "p": win[(k+1)%len(win)], "st": 1})
				}
				d.S.Boundary()
			}
		}
		// every day of a year as the lower (then the upper) bound of a filter whose other bound stays
		// the same, one filter after the other in one process, each asked about its bound and the two
		// days around it: filters built earlier must not answer for one built later
		if d.Shard == 0 {
			var year [][]int
			for m := 1; m <= 12; m++ {
				for dd := 1; dd <= daysIn(2021, m); dd++ {
					year = append(year, []int{2021, m, dd})
				}
			}
			for side := 0; side < 2; side++ {
				for i := 1; i+1 < len(year); i++ {
					ft := [2][]int{year[i], {2021, 12, 31}}
					if side == 1 {
						ft = [2][]int{{2021, 1, 1}, year[i]}
					}
					d.Do(Ev{"op": "date.freset", "st": 1})
					d.Do(Ev{"op": "date.vars", "from": ft[0], "to": ft[1], "st": 1})
					if e := d.Do(Ev{"op": "date.fbuild", "same": false, "st": 1}); e["ok"] == true {
						for _, q := range [][]int{year[i-1], year[i], year[i+1]} {
							d.Do(Ev{"op": "date.fcontains", "i": 1, "p": q, "st": 1})
						}
					}
				}
				d.S.Boundary()
			}
		}
		// what a fresh filter is asked first: dates a zero-initialised field would hold or that mark
		// an epoch, as the very first question to two-sided and one-sided filters around them
		pivots := [][]int{{1, 1, 1}, {0, 1, 1}, {1970, 1, 1}, {2000, 1, 1}, {0, 12, 31}, {1, 1, 2}}
		for pi, pv := range pivots {
			if !d.Mine(pi) {
				continue
			}
			before, after := []int{pv[0] - 1, 6, 15}, []int{pv[0] + 1, 6, 15}
			for _, ft := range [][2][]int{{before, after}, {pv, pv}, {pv, after}, {before, pv}, {before, {}}, {{}, after}, {after, {}}, {{}, before}} {
				d.Do(Ev{"op": "date.freset", "st": 1})
				d.Do(Ev{"op": "date.vars", "from": ft[0], "to": ft[1], "st": 1})
				if e := d.Do(Ev{"op": "date.fbuild", "same": false, "st": 1}); e["ok"] == true {
					for _, q := range [][]int{pv, pv, before, pv, after, pv} {
						d.Do(Ev{"op": "date.fcontains", "i": 1, "p": q, "st": 1})
					}
				}
			}
			d.S.Boundary()
		}
		// seeded random triples over 0000..9999 with several filters alive at once
		nr := 200
		if d.Thorough() {
			nr = 150000
		}
		rd := func() []int {
			if d.R.Intn(6) == 0 {
				return []int{}
			}
			y := d.R.Intn(10000)
			m := 1 + d.R.Intn(12)
			return []int{y, m, 1 + d.R.Intn(daysIn(y, m))}
		}
		for i := 0; i < nr/d.NShards; i++ {
			d.Do(Ev{"op": "date.freset", "st": 1})
			nf := 0
			for j := 0; j < 4; j++ {
				a, b := rd(), rd()
				if len(a) > 0 && len(b) > 0 && d.R.Intn(3) == 0 {
					b = []int{a[0], a[1], 1 + d.R.Intn(daysIn(a[0], a[1]))}
				}
				d.Do(Ev{"op": "date.vars", "from": a, "to": b, "st": 1})
				if e := d.Do(Ev{"op": "date.fbuild", "st": 1}); e["ok"] == true {
					nf++
				}
				for q := 0; q < 6 && nf > 0; q++ {
					p := rd()
					if len(p) == 0 {
						p = []int{2024, 2, 29}
					}
					if q < 2 && len(a) > 0 {
						p = a
					}
					if q == 2 && len(b) > 0 {
						p = b
					}
					d.Do(Ev{"op": "date.fcontains", "i": 1 + d.R.Intn(nf), "p": p, "st": 1})
				}
			}
			d.S.Boundary()
		}
	}
}
