package main

import "time"

func isLeap(y int) bool { return (y%4 == 0 && y%100 != 0) || y%400 == 0 }
func daysIn(y, m int) int {
	switch m {
	case 1, 3, 5, 7, 8, 10, 12:
		return 31
	case 4, 6, 9, 11:
		return 30
	}
	if isLeap(y) {
		return 29
	}
	return 28
}

var boundaryYears = []int{0, 1, 2, 3, 4, 5, 99, 100, 101, 399, 400, 401, 999, 1000, 1001, 1582, 1583, 1599, 1600, 1601,
	1699, 1700, 1752, 1799, 1800, 1899, 1900, 1901, 1904, 1969, 1970, 1971, 1972, 1996, 1999, 2000, 2001, 2004, 2019, 2020, 2021,
	2022, 2023, 2024, 2038, 2099, 2100, 2101, 2200, 2262, 2263, 2399, 2400, 2401, 4000, 8000, 9000, 9996, 9998, 9999}

func init() {
	// C01: whole-calendar round trips. quick = all days of the boundary years, plus first day,
	// last day, every month end and 02-28/29 of every year 0000..9999, plus long years under
	// raised limits; thorough = every day of 0000..9999 as one day-consecutive chain.
	drivers["c01"] = func(d *Drv) {
		emit := func(y, m, dd, chain int) {
			d.Do(Ev{"op": "date.rt", "y": y, "m": m, "d": dd, "chain": chain})
			d.S.Boundary()
		}
		allDays := func(y0, y1 int) {
			first := true
			for y := y0; y <= y1; y++ {
				for m := 1; m <= 12; m++ {
					for dd := 1; dd <= daysIn(y, m); dd++ {
						c := 1
						if first || d.S.f == nil {
							c = 0
						}
						first = false
						emit(y, m, dd, c)
					}
				}
			}
		}
		d.Do(Ev{"op": "date.set", "max": 10})
		if d.Thorough() {
			allDays(d.Span(0, 9999))
		} else {
			for i, y := range boundaryYears {
				if d.Mine(i) {
					allDays(y, y)
				}
			}
			y0, y1 := d.Span(0, 9999)
			for y := y0; y <= y1; y++ {
				emit(y, 1, 1, 0)
				emit(y, 2, daysIn(y, 2), 0)
				emit(y, 3, 1, 0)
				emit(y, 12, 31, 0)
				if y%7 == 0 {
					for m := 1; m <= 12; m++ {
						emit(y, m, daysIn(y, m), 0)
					}
				}
			}
		}
		// 5-9 digit years under MaxInputLength in {0, 11..15}: texts that fit and texts that do not
		n := 400 / d.NShards
		if d.Thorough() {
			n = 20000 / d.NShards
		}
		for _, max := range []int{0, 11, 12, 13, 14, 15} {
			d.Do(Ev{"op": "date.set", "max": max})
			for _, y := range []int{9999, 10000, 10001, 99999, 100000, 999999, 1000000, 9999999, 10000000, 99999999, 100000000, 999999999, 999999996} {
				for _, md := range [][2]int{{1, 1}, {2, 28}, {2, 29}, {12, 31}, {10, 10}} {
					if md[1] <= daysIn(y, md[0]) {
						emit(y, md[0], md[1], 0)
					}
				}
			}
			for i := 0; i < n; i++ {
				digits := 5 + d.R.Intn(5)
				lo := 1
				for k := 1; k < digits; k++ {
					lo *= 10
				}
				y := lo + d.R.Intn(lo*9)
				m := 1 + d.R.Intn(12)
				emit(y, m, 1+d.R.Intn(daysIn(y, m)), 0)
			}
		}
		d.Do(Ev{"op": "date.set", "max": 10})
	}
}

var _ = time.UTC
