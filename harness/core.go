// Package main is the conformance harness that binds the TLA+ specification in
// /verif/spec to the real go.lstv.dev/util code (replace => $VERIF_REPO, /repo by default).
//
//	harness drive <driver> -tier quick|thorough -seed N -out DIR   writes DIR/<driver>-NNN.ndjson
//	harness replay <file.json>                                     re-executes recorded events
//
// Drivers only build requests and record observations; every verdict is taken by TLC
// from the specification (spec/trace/Trace.tla).
package main

import (
	"bufio"
	"encoding/json"
	"fmt"
	"math"
	"os"
	"path/filepath"
	"sort"
	"strings"
)

// Ev is one trace event: operation, all arguments, the full projected observation.
type Ev map[string]any

// check refuses anything TLC's Json module would silently mangle: numbers outside int32,
// fractions, null.
func checkValue(path string, v any) {
	switch x := v.(type) {
	case nil:
		fatal("encoder: null at %s", path)
	case bool, string:
	case int:
		if x > math.MaxInt32 || x < math.MinInt32 {
			fatal("encoder: %d at %s does not fit int32", x, path)
		}
	case int64:
		if x > math.MaxInt32 || x < math.MinInt32 {
			fatal("encoder: %d at %s does not fit int32", x, path)
		}
	case float64:
		if x != math.Trunc(x) || x > math.MaxInt32 || x < math.MinInt32 {
			fatal("encoder: %v at %s is not an int32", x, path)
		}
	case []int:
		for _, y := range x {
			if y > math.MaxInt32 || y < math.MinInt32 {
				fatal("encoder: %d at %s does not fit int32", y, path)
			}
		}
	case []string:
	case [][]int:
		for i, y := range x {
			checkValue(fmt.Sprintf("%s[%d]", path, i), y)
		}
	case []any:
		for i, y := range x {
			checkValue(fmt.Sprintf("%s[%d]", path, i), y)
		}
	case []Ev:
		for i, y := range x {
			checkValue(fmt.Sprintf("%s[%d]", path, i), y)
		}
	case Ev:
		for k, y := range x {
			checkValue(path+"."+k, y)
		}
	case map[string]any:
		for k, y := range x {
			checkValue(path+"."+k, y)
		}
	default:
		fatal("encoder: unsupported type %T at %s", v, path)
	}
}

func fatal(format string, a ...any) {
	fmt.Fprintf(os.Stderr, "HARNESS-ERROR: "+format+"\n", a...)
	os.Exit(2)
}

// B converts bytes to the int-array form used for every text in a trace.
func B[T ~string | ~[]byte](s T) []int {
	b := []byte(s)
	out := make([]int, len(b))
	for i, c := range b {
		out[i] = int(c)
	}
	return out
}

func fromB(v any) []byte {
	switch x := v.(type) {
	case []int:
		out := make([]byte, len(x))
		for i, c := range x {
			out[i] = byte(c)
		}
		return out
	case []any:
		out := make([]byte, len(x))
		for i, c := range x {
			out[i] = byte(num(c))
		}
		return out
	case string:
		return []byte(x)
	}
	fatal("fromB: %T", v)
	return nil
}

func num(v any) int {
	switch x := v.(type) {
	case int:
		return x
	case int64:
		return int(x)
	case float64:
		return int(x)
	case json.Number:
		n, _ := x.Int64()
		return int(n)
	case bool:
		if x {
			return 1
		}
		return 0
	}
	fatal("num: %T", v)
	return 0
}

func str(v any) string {
	if s, ok := v.(string); ok {
		return s
	}
	fatal("str: %T", v)
	return ""
}

// clamp32 saturates an observed integer to the int32 range of the trace format (observations
// that large are outside every demand of the specification).
func clamp32(n int) int {
	if n > math.MaxInt32 {
		return math.MaxInt32
	}
	if n < math.MinInt32 {
		return math.MinInt32
	}
	return n
}

func b2i(b bool) int {
	if b {
		return 1
	}
	return 0
}

// A caller that reuses one buffer for successive inputs (bufio.Scanner, pooled buffers) is ordinary
// use: every []byte instantiation of a parser gets its input in this one backing array.
var reuseBuf = make([]byte, 0, 1<<16)

func reused(in []byte) []byte {
	if concMode {
		// the shared buffer belongs to one caller; concurrent callers each own theirs
		return append(make([]byte, 0, len(in)), in...)
	}
	if len(in) > cap(reuseBuf) {
		reuseBuf = make([]byte, 0, 2*len(in))
	}
	reuseBuf = append(reuseBuf[:0], in...)
	return reuseBuf[:len(in):len(in)]
}

// a second buffer of the same kind, for calls that take two inputs
var reuseBuf2 = make([]byte, 0, 1<<16)

func reused2(in []byte) []byte {
	if concMode {
		return append(make([]byte, 0, len(in)), in...)
	}
	if len(in) > cap(reuseBuf2) {
		reuseBuf2 = make([]byte, 0, 2*len(in))
	}
	reuseBuf2 = append(reuseBuf2[:0], in...)
	return reuseBuf2[:len(in):len(in)]
}

// Runes that Unicode case mapping or "digit" classification relates to ASCII characters: a parser
// that upper-cases, lower-cases or classifies with unicode-aware helpers may let them in.
var confusables = []string{"\u0131", "\u0130", "\u017f", "\u212a", "\u2160", "\u2170", "\uff29", "\uff49", "\uff11", "\u0661", "\u00b9", "\u2164", "\u216f", "\u217f", "\u00e9"}

// printable reports whether s can be logged as a JSON string and rebuilt by the
// specification with ToString and \o (printable ASCII only).
func printable(s []byte) bool {
	for _, c := range s {
		if c < 32 || c > 126 {
			return false
		}
	}
	return true
}

// S logs an output text: as a string when printable ASCII, otherwise as "!"+hex, which no
// specification expression can ever produce (so a non-printable output is a visible mismatch
// that still survives the JSON round trip byte for byte).
func S[T ~string | ~[]byte](s T) string {
	b := []byte(s)
	if printable(b) {
		return string(b)
	}
	return fmt.Sprintf("!%x", b)
}

// Sink writes events into chunk files; every chunk starts with the latest configuration
// events so that each chunk is a behaviour from the specification's initial state.
type Sink struct {
	dir, name string
	chunk     int
	perChunk  int
	n, total  int
	f         *os.File
	w         *bufio.Writer
	sets      map[string]Ev // last configuration event per op
	setOrder  []string
	counts    map[string]int
	histStart []Ev // events since the last reset of a stateful history (re-emitted on rotate)
}

func NewSink(dir, name string, perChunk int) *Sink {
	return &Sink{dir: dir, name: name, perChunk: perChunk, sets: map[string]Ev{}, counts: map[string]int{}}
}

func (s *Sink) open() {
	p := filepath.Join(s.dir, fmt.Sprintf("%s-%04d.ndjson", s.name, s.chunk))
	f, err := os.Create(p)
	if err != nil {
		fatal("%v", err)
	}
	s.f, s.w, s.n = f, bufio.NewWriterSize(f, 1<<20), 0
	s.chunk++
	for _, op := range s.setOrder {
		s.write(s.sets[op])
	}
}

func (s *Sink) write(e Ev) {
	checkValue(str(e["op"]), map[string]any(e))
	enc := json.NewEncoder(s.w)
	enc.SetEscapeHTML(false)
	if err := enc.Encode(e); err != nil {
		fatal("%v", err)
	}
	s.n++
}

// Emit records one completed event. boundary reports whether a chunk may end after it.
func (s *Sink) Emit(e Ev) {
	if s.f == nil {
		s.open()
	}
	op := str(e["op"])
	if strings.HasSuffix(op, ".set") || strings.HasSuffix(op, ".univ") {
		if _, ok := s.sets[op]; !ok {
			s.setOrder = append(s.setOrder, op)
		}
		s.sets[op] = e
	}
	s.write(e)
	s.total++
	s.counts[op]++
}

// Boundary tells the sink that the model state is back at "configuration only" (no history
// in flight), so the chunk may be rotated here.
func (s *Sink) Boundary() {
	if s.f != nil && s.n >= s.perChunk {
		s.Close()
	}
}

func (s *Sink) Close() {
	if s.f != nil {
		s.w.Flush()
		s.f.Close()
		s.f = nil
	}
}

// Intent writes the request about to be executed to <name>.intent.json (flushing the trace first, so
// that everything recorded so far is on disk as well); IntentDone removes it.
func (s *Sink) Intent(req Ev) {
	if s.f != nil {
		s.w.Flush()
	}
	evs := []Ev{}
	for _, op := range s.setOrder {
		evs = append(evs, s.sets[op])
	}
	b, _ := json.Marshal(map[string]any{"events": append(evs, req)})
	if err := os.WriteFile(filepath.Join(s.dir, s.name+".intent.json"), b, 0o644); err != nil {
		fatal("%v", err)
	}
}

func (s *Sink) IntentDone() {
	os.Remove(filepath.Join(s.dir, s.name+".intent.json"))
}

func (s *Sink) Summary() {
	s.Close()
	keys := make([]string, 0, len(s.counts))
	for k := range s.counts {
		keys = append(keys, k)
	}
	sort.Strings(keys)
	out := map[string]any{"driver": s.name, "events": s.total, "chunks": s.chunk, "ops": s.counts}
	b, _ := json.Marshal(out)
	fmt.Printf("DRIVER-SUMMARY %s\n", b)
}

// rng is a small deterministic generator (splitmix64) so traces depend only on VERIF_SEED.
type rng struct{ s uint64 }

func (r *rng) U64() uint64 {
	r.s += 0x9e3779b97f4a7c15
	z := r.s
	z = (z ^ (z >> 30)) * 0xbf58476d1ce4e5b9
	z = (z ^ (z >> 27)) * 0x94d049bb133111eb
	return z ^ (z >> 31)
}
func (r *rng) Intn(n int) int { return int(r.U64() % uint64(n)) }
func (r *rng) Bool() bool     { return r.U64()&1 == 1 }
