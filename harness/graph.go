package main

import (
	"encoding/json"
	"os"
)

// A graph driver records the COMPLETE function graph of one entry point over an enumerated
// domain: the accepted points with their values, anomalies (anything that is neither a clean
// acceptance nor a clean typed rejection with a zero result), and the total number of points.
// TLC enumerates the same domain itself (spec/mc/Graph_*.tla) and looks every point up.
type graphOut struct {
	Domain    string `json:"domain"`
	Total     int    `json:"total"`
	Accepted  []any  `json:"accepted"`
	Anomalies []any  `json:"anomalies"`
}

var graphs = map[string]func(tier string, g *graphOut){}

func runGraph(name, tier, out string) {
	f, ok := graphs[name]
	if !ok {
		fatal("unknown graph %q", name)
	}
	g := &graphOut{Accepted: []any{}, Anomalies: []any{}}
	f(tier, g)
	if len(g.Accepted) > 3000000 {
		g.Accepted = g.Accepted[:3000000]
	}
	if len(g.Anomalies) > 1000 {
		g.Anomalies = g.Anomalies[:1000]
	}
	w, err := os.Create(out)
	if err != nil {
		fatal("%v", err)
	}
	defer w.Close()
	enc := json.NewEncoder(w)
	enc.SetEscapeHTML(false)
	if err := enc.Encode(g); err != nil {
		fatal("%v", err)
	}
	b, _ := json.Marshal(map[string]any{"graph": name, "total": g.Total, "accepted": len(g.Accepted), "anomalies": len(g.Anomalies), "domain": g.Domain})
	os.Stdout.Write(append([]byte("GRAPH-SUMMARY "), append(b, '\n')...))
}

// enumStrings calls f on every string over alpha with length <= maxLen, and, for every
// prefix in deep, on its extensions up to deepLen.
func enumStrings(alpha []byte, maxLen int, deep [][]byte, deepLen int, f func(s []byte)) {
	buf := make([]byte, 0, 32)
	var rec func(limit int)
	rec = func(limit int) {
		f(buf)
		if len(buf) >= limit {
			return
		}
		for _, c := range alpha {
			buf = append(buf, c)
			rec(limit)
			buf = buf[:len(buf)-1]
		}
	}
	rec(maxLen)
	for _, p := range deep {
		// extensions of p beyond maxLen only (shorter ones were enumerated above)
		var rec2 func()
		rec2 = func() {
			if len(buf) > maxLen {
				f(buf)
			}
			if len(buf) >= deepLen {
				return
			}
			for _, c := range alpha {
				buf = append(buf, c)
				rec2()
				buf = buf[:len(buf)-1]
			}
		}
		buf = append(buf[:0], p...)
		rec2()
		buf = buf[:0]
	}
}
