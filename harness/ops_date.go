package main

import (
	"encoding/json"
	"encoding/xml"
	"errors"
	"fmt"
	"strconv"
	"time"

	"go.lstv.dev/util/date"
)

var dateSentinels = []struct {
	name string
	err  error
}{
	{"ErrInputTooLong", date.ErrInputTooLong},
	{"ErrInvalidLength", date.ErrInvalidLength},
	{"ErrUnsupportedVersion", date.ErrUnsupportedVersion},
	{"ErrInvalidType", date.ErrInvalidType},
	{"ErrBasicFormatDisabled", date.ErrBasicFormatDisabled},
	{"ErrInvalidFromOrTo", date.ErrInvalidFromOrTo},
}

func dateIs(err error) []string {
	out := []string{}
	for _, s := range dateSentinels {
		if errors.Is(err, s.err) {
			out = append(out, s.name)
		}
	}
	return out
}

func dateTyped(err error) bool {
	var a *date.ParseError[string]
	var b *date.ParseError[[]byte]
	var c *date.ParseError[myStr]
	var d *date.ParseError[myBytes]
	return errors.As(err, &a) || errors.As(err, &b) || errors.As(err, &c) || errors.As(err, &d)
}

func ymd(d date.Date) []int {
	y, m, dd := d.Date()
	return []int{y, int(m), dd}
}

func mkDate(v any) date.Date {
	a := ints(v)
	return date.New(a[0], date.Month(a[1]), a[2])
}

func ints(v any) []int {
	switch x := v.(type) {
	case []int:
		return x
	case []any:
		out := make([]int, len(x))
		for i, y := range x {
			out[i] = num(y)
		}
		return out
	}
	fatal("ints: %T", v)
	return nil
}

// parse result projection shared by all date input paths: [ok, y, m, d]
func back(d date.Date, err error) []int {
	if err != nil {
		return []int{0, 0, 0, 0}
	}
	a := ymd(d)
	return []int{1, a[0], a[1], a[2]}
}

type xmlDoc struct {
	XMLName xml.Name  `xml:"Date"`
	D       date.Date `xml:",chardata"`
}

func init() {
	ops["date.set"] = func(e Ev) Ev {
		date.MaxInputLength = num(e["max"])
		return e
	}

	// C01: every output path of one date, and every input path on both produced texts.
	ops["date.rt"] = func(e Ev) Ev {
		d := date.New(num(e["y"]), date.Month(num(e["m"])), num(e["d"]))
		e["new"] = ymd(d)
		e["acc"] = []int{d.Year(), int(d.Month()), d.Day()}
		e["mname"] = d.Month().String()
		fe, err1 := date.DefaultFormatter(nil, d, 0)
		fb, err2 := date.DefaultFormatter(nil, d, date.FormatBasic)
		mt, err3 := d.MarshalText()
		js, err4 := json.Marshal(d)
		xm, err5 := xml.Marshal(d)
		e["errs"] = b2i(err1 != nil) + b2i(err2 != nil) + b2i(err3 != nil) + b2i(err4 != nil) + b2i(err5 != nil)
		e["fe"], e["fb"], e["mt"], e["str"] = S(fe), S(fb), S(mt), S(d.String())
		e["vs"], e["ve"], e["vb"], e["vv"] = S(fmt.Sprintf("%s", d)), S(fmt.Sprintf("%e", d)), S(fmt.Sprintf("%b", d)), S(fmt.Sprintf("%v", d))
		e["js"], e["xm"] = S(js), S(xm)
		// the caller owns the returned slices: overwriting them must not change later results
		for _, b := range [][]byte{fe, fb, mt, js, xm} {
			for i := range b {
				b[i] = '#'
			}
		}
		held, _ := d.MarshalText()
		heldF, _ := date.DefaultFormatter(nil, d, 0)
		other := d.Add(0, 1, 1)
		_, _ = other.MarshalText()
		_, _ = date.DefaultFormatter(nil, other, 0)
		_ = other.String()
		hs := d.String()
		_ = other.String()
		_ = d.Add(0, 0, 1).String()
		e["held"], e["heldf"], e["helds"] = S(held), S(heldF), S(hs)
		mt2, _ := d.MarshalText()
		fe2, _ := date.DefaultFormatter(make([]byte, 0, 4), d, 0) // a non-nil, empty caller buffer
		e["mt2"], e["fe2"], e["str2"] = S(mt2), S(fe2), S(d.String())
		fe, _ = date.DefaultFormatter(nil, d, 0)
		fb, _ = date.DefaultFormatter(nil, d, date.FormatBasic)
		res := [][]int{}
		for _, text := range [][]byte{fe, fb} {
			res = append(res, back(date.DefaultParser(string(text), 0)))
			res = append(res, back(date.DefaultParser(append([]byte(nil), text...), 0)))
			var u date.Date
			err := u.UnmarshalText(append([]byte(nil), text...))
			res = append(res, back(u, err))
			var j date.Date
			err = json.Unmarshal([]byte(`"`+string(text)+`"`), &j)
			res = append(res, back(j, err))
			var x date.Date
			err = xml.Unmarshal([]byte(`<Date>`+string(text)+`</Date>`), &x)
			res = append(res, back(x, err))
		}
		// the extended text must parse under RuleDisableBasic too (string and reused []byte)
		res = append(res, back(date.DefaultParser(string(fe), date.RuleDisableBasic)))
		res = append(res, back(date.DefaultParser(reused(fe), date.RuleDisableBasic)))
		e["back"] = res
		// a caller that keeps one read buffer: this record, then the buffer refilled with the next
		// record (the following day: the same length, other content) and parsed again
		nt := time.Date(num(e["y"]), time.Month(num(e["m"])), num(e["d"])+1, 0, 0, 0, 0, time.UTC)
		ny, nm, nd := nt.Date()
		ntext := fmt.Sprintf("%04d-%02d-%02d", ny, int(nm), nd)
		buf := reused(fe)
		first := back(date.DefaultParser(buf, 0))
		again := back(date.DefaultParser(buf, 0)) // the same buffer, untouched by the caller, once more
		e["inkept"] = string(buf) == string(fe)
		second := back(date.DefaultParser(reused([]byte(ntext)), 0))
		e["reuse"], e["nexttext"] = [][]int{first, second, again}, S(ntext)
		// the basic form appended to a buffer that holds the extended form
		both, _ := date.DefaultFormatter(append(make([]byte, 0, 64), fe...), d, date.FormatBasic)
		e["both"] = S(both)
		return e
	}

	// DefaultParser on arbitrary bytes, string or []byte instantiation (C09, C18).
	ops["date.parse"] = func(e Ev) Ev {
		in := fromB(e["in"])
		rule := date.Rule(num(e["rule"]))
		var d date.Date
		var err error
		p := try(func() {
			switch str(e["T"]) {
			case "s":
				d, err = date.DefaultParser(string(in), rule)
			case "S": // a named string type
				d, err = date.DefaultParser(myStr(in), rule)
			case "B": // a named []byte type
				d, err = date.DefaultParser(myBytes(reused(in)), rule)
			default:
				d, err = date.DefaultParser(reused(in), rule)
			}
		})
		e["panic"] = p
		e["ok"] = err == nil && !p
		e["v"] = ymd(d)
		e["zero"] = d == date.Date{}
		e["typed"] = err != nil && dateTyped(err)
		e["is"] = dateIs(err)
		e["echo"] = err != nil && len(in) > 0 && containsBytes(err.Error(), in)
		return e
	}

	// UnmarshalBinary into a receiver holding "pre" (C11, C17).
	ops["date.unbin"] = func(e Ev) Ev {
		in := fromB(e["in"])
		snap := append([]byte(nil), in...)
		r := mkDate(e["pre"])
		var err error
		p := try(func() { err = r.UnmarshalBinary(in) })
		e["panic"] = p
		e["ok"] = err == nil && !p
		e["after"] = ymd(r)
		e["afters"] = S(r.String())
		e["is"] = dateIs(err)
		e["inmod"] = string(snap) != string(in)
		return e
	}

	ops["date.bin"] = func(e Ev) Ev {
		d := mkDate(e["a"])
		b, err := d.MarshalBinary()
		e["ok"] = err == nil
		e["out"] = B(b)
		var r date.Date
		err = r.UnmarshalBinary(b)
		e["back"] = back(r, err)
		// the caller owns the returned slice: overwriting it must not change what the next
		// MarshalBinary of an equal date returns
		for i := range b {
			b[i] ^= 0xa5
		}
		b2, err2 := mkDate(e["a"]).MarshalBinary()
		e["ok"] = err == nil && err2 == nil
		e["out2"] = B(b2)
		return e
	}

	// ordering and differences of two dates (C07)
	ops["date.cmp"] = func(e Ev) Ev {
		a, b := mkDate(e["a"]), mkDate(e["b"])
		e["before"], e["after"], e["equal"] = a.Before(b), a.After(b), a.Equal(b)
		sub := a.Sub(b)
		e["subdays"] = clamp32(int(sub / (24 * time.Hour)))
		e["subrem"] = sub%(24*time.Hour) == 0
		e["between"] = clamp32(a.DaysBetween(b)) // the specification judges differences within +-106751 days only
		e["azero"] = a.IsZero()
		return e
	}

	ops["date.add"] = func(e Ev) Ev {
		a := mkDate(e["a"])
		e["r"] = ymd(a.Add(num(e["dy"]), num(e["dm"]), num(e["dd"])))
		return e
	}

	// AddDuration(days*24h + secs*1s + nanos): secs in (-86400, 86400)
	ops["date.adddur"] = func(e Ev) Ev {
		a := mkDate(e["a"])
		dur := time.Duration(num(e["days"]))*24*time.Hour + time.Duration(num(e["secs"]))*time.Second + time.Duration(num(e["nanos"]))
		e["r"] = ymd(a.AddDuration(dur))
		return e
	}

	ops["date.time"] = func(e Ev) Ev {
		a := mkDate(e["a"])
		t := a.Time()
		y, m, d := t.Date()
		e["t"] = []int{y, int(m), d, t.Hour(), t.Minute(), t.Second(), t.Nanosecond()}
		e["utc"] = t.Location() == time.UTC
		v, err := a.Value()
		tv, isT := v.(time.Time)
		e["valeq"] = err == nil && isT && tv.Equal(t) && tv.Location() == time.UTC
		return e
	}

	// FromTime / Scan of a time given in a fixed zone: t = [y,m,d,h,mi,s,ns], off seconds
	// Today(): the calendar date of the process's local time (specification growth)
	ops["date.today"] = func(e Ev) Ev {
		t0 := time.Now()
		r := date.Today()
		t1 := time.Now()
		y0, m0, d0 := t0.Date()
		y1, m1, d1 := t1.Date()
		e["before"], e["r"], e["after"] = []int{y0, int(m0), d0}, ymd(r), []int{y1, int(m1), d1}
		return e
	}
	ops["date.fromtime"] = func(e Ev) Ev {
		a := ints(e["t"])
		loc := time.FixedZone("z", num(e["off"]))
		t := time.Date(a[0], time.Month(a[1]), a[2], a[3], a[4], a[5], a[6], loc)
		e["iszero"] = t.IsZero()
		e["r"] = ymd(date.FromTime(t))
		var s date.Date
		err := s.Scan(t)
		e["scan"] = back(s, err)
		// the same instant seen from a zone nine hours further east (another calendar day for some
		// times), converted directly afterwards; then the value converted first back to a time
		off2 := num(e["off"]) + 32400
		e["off2"] = off2
		e["r2"] = ymd(date.FromTime(t.In(time.FixedZone("y", off2))))
		first := date.FromTime(t)
		tm := first.Time()
		e["rt"] = []int{clamp32(tm.Year()), int(tm.Month()), tm.Day(), tm.Hour()*3600 + tm.Minute()*60 + tm.Second(), b2i(tm.Location() == time.UTC)}
		return e
	}
}

// containsBytes is the observation behind "the message reproduces the input": the message
// contains the input verbatim or in its %q-escaped form. Inputs shorter than 8 bytes are not
// judged, because a few bytes can occur in any message by coincidence (" 1" in "2 > 1").
func containsBytes(s string, sub []byte) bool {
	if len(sub) < 8 {
		return false
	}
	q := strconv.Quote(string(sub))
	return stringsContains(s, string(sub)) || stringsContains(s, q[1:len(q)-1])
}

// C15 state: the caller's own bound variables (the filter is given pointers to them) and the
// filters built so far.
var (
	fFromVar, fToVar date.Date
	fFromNil, fToNil = true, true
	fFilters         []date.Filter
)

func optDate(v any) (date.Date, bool) {
	a := ints(v)
	if len(a) == 0 {
		return date.Date{}, true
	}
	return date.New(a[0], date.Month(a[1]), a[2]), false
}

func init() {
	ops["date.freset"] = func(e Ev) Ev {
		fFilters = nil
		fFromNil, fToNil = true, true
		fFromVar, fToVar = date.Date{}, date.Date{}
		return e
	}
	// the caller assigns its variables (the same variables every time, so a filter that kept
	// the pointers would see the change)
	ops["date.vars"] = func(e Ev) Ev {
		fFromVar, fFromNil = optDate(e["from"])
		fToVar, fToNil = optDate(e["to"])
		return e
	}
	ops["date.fbuild"] = func(e Ev) Ev {
		var from, to *date.Date
		if !fFromNil {
			from = &fFromVar
		}
		if !fToNil {
			to = &fToVar
		}
		if e["same"] == true && !fFromNil && !fToNil && fFromVar == fToVar {
			to = from // the caller passes one variable as both bounds
		}
		f, err := date.FilterFromTo(from, to)
		e["ok"] = err == nil
		e["is"] = dateIs(err)
		if err == nil {
			fFilters = append(fFilters, f)
		}
		return e
	}
	ops["date.fcontains"] = func(e Ev) Ev {
		i := num(e["i"])
		if i < 1 || i > len(fFilters) {
			fatal("date.fcontains: no filter %d", i)
		}
		e["r"] = fFilters[i-1].Contains(mkDate(e["p"]))
		return e
	}
}

func init() {
	// C09 graph: DefaultParser[string] with no limit and rule 0 over every string on
	// {0,1,2,3,9,-} up to length 8 (thorough 9) plus every extension of "20" up to length 10.
	graphs["g09"] = func(tier string, g *graphOut) {
		old := date.MaxInputLength
		date.MaxInputLength = 0
		defer func() { date.MaxInputLength = old }()
		maxLen := 8
		if tier == "thorough" {
			maxLen = 9
		}
		g.Domain = "strings over {0,1,2,3,9,-}: all of length <= maxLen, plus all extensions of \"20\" up to length 10"
		enumStrings([]byte("01239-"), maxLen, [][]byte{[]byte("20")}, 10, func(s []byte) {
			g.Total++
			var d date.Date
			var err error
			p := try(func() { d, err = date.DefaultParser(string(s), 0) })
			switch {
			case p:
				g.Anomalies = append(g.Anomalies, []any{B(s), "panic"})
			case err == nil:
				g.Accepted = append(g.Accepted, []any{B(s), ymd(d)})
			case !dateTyped(err) || d != (date.Date{}) || len(dateIs(err)) != 0:
				g.Anomalies = append(g.Anomalies, []any{B(s), "untyped/nonzero/sentinel rejection"})
			}
		})
	}
}
