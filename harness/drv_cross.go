package main

import (
	"strconv"
	"strings"
)

func randID(d *Drv) []int {
	id := make([]int, 32)
	for i := range id {
		id[i] = d.R.Intn(16)
	}
	return id
}

func init() {
	// C16: every DefaultFormatter onto caller buffers: every byte value as a prefix, prefixes made
	// of the symbols the formatter itself emits, spare capacity 0..64, every flag subset
	drivers["c16"] = func(d *Drv) {
		// URN(): "urn:uuid:" followed by the plain rendering (the method builds its own buffer)
		nU := 400
		if d.Thorough() {
			nU = 20000
		}
		for i := 0; i < nU; i++ {
			id := randID(d)
			switch i % 8 {
			case 0:
				id = make([]int, 32)
			case 1:
				for j := range id[:16+i%16] {
					id[j] = 0
				}
			case 2:
				for j := range id {
					id[j] = 15
				}
			}
			d.Do(Ev{"op": "uu.fmt", "id": id})
		}
		d.S.Boundary()
		type tgt struct {
			pkg   string
			flags int
			vals  []any
		}
		tgts := []tgt{
			{"date", 4, []any{[]int{2024, 2, 29}, []int{1, 1, 1}, []int{0, 12, 31}, []int{9999, 12, 31}, []int{123456789, 10, 5}}},
			{"roman", 128, []any{0, 1, 4, 9, 14, 49, 444, 999, 1994, 3888, 4999, 12049}},
			{"sem", 4, []any{ver("1", "2", "3", "", ""), ver("0", "0", "0", "rc.1", "b.7"), ver(u64max, u64max, u64max, "alpha-1.x", ""), ver("10", "20", "30", "", "001")}},
			{"size", 4, []any{dig(0), dig(1), dig(1023), dig(1024), dig(1234567), dig(1 << 40), dig(18446744073709551615), dig(999999999999)}},
			{"uu", 4, []any{randID(d), make([]int, 32), randID(d)}},
		}
		multi := []string{"MIX-", "mdclxvi", "MDCLXVI", "IVXLCDM ivxlcdm", "0123456789abcdef-", "ABCDEF", "urn:uuid:", "v1.2.3-", "+build", "  12 345 KiB", "&nbsp;", "2024-01-", "\x00\xff", "日本", "M"}
		spares := []int{0, 1, 2, 3, 4, 5, 7, 8, 9, 10, 15, 16, 17, 31, 32, 33, 36, 45, 63, 64}
		k := 0
		for ti, t := range tgts {
			emit := func(prefix []byte) {
				k++
				if !d.Mine(k) {
					return
				}
				reps := 6
				if d.Thorough() {
					reps = 400
				}
				for r := 0; r < reps; r++ {
					fl := d.R.Intn(t.flags)
					if t.pkg == "roman" && r%2 == 0 {
						fl |= 64
					}
					d.Do(Ev{"op": "fmt.append", "pkg": t.pkg, "prefix": B(prefix), "spare": spares[(k+r*7)%len(spares)], "val": t.vals[(k+r)%len(t.vals)], "flags": fl})
				}
				d.S.Boundary()
			}
			_ = ti
			for c := 0; c < 256; c++ {
				emit([]byte{byte(c)})
				emit([]byte{byte(c), 'M', byte(c)})
			}
			for _, m := range multi {
				emit([]byte(m))
				emit([]byte(strings.Repeat(m, 5)))
			}
			emit(nil)
			emit([]byte{})
			// every flag subset on fixed prefixes
			for fl := 0; fl < t.flags; fl++ {
				if !d.Mine(fl) {
					continue
				}
				for vi, v := range t.vals {
					for _, pre := range []string{"", "MIX-", "abcDEF0", "x", "urn:uuid:", "see urn:uuid:", "v", "-"} {
						d.Do(Ev{"op": "fmt.append", "pkg": t.pkg, "prefix": B(pre), "spare": spares[(fl+vi)%len(spares)], "val": v, "flags": fl})
					}
				}
				d.S.Boundary()
			}
		}
	}

	// C17: receiver histories and string/bytes twins
	drivers["c17"] = func(d *Drv) {
		sizeDefaults(d)
		type gen struct {
			pkg   string
			kinds []string
			pre   any
			good  []string
			bad   []string
		}
		long := strings.Repeat("9", 2000)
		gens := []gen{
			{"date", []string{"text", "json", "binary", "scan"}, []int{2001, 2, 3}, []string{"2024-02-29", "20231231", "0001-01-01", "9999-12-31"},
				[]string{"", "2024-02-30", "2024-13-01", "2024-1-1", "abcd-ef-gh", "2024-02-29x", long, "\x00\x01", "10000-01-01"}},
			{"roman", []string{"text", "json"}, 1994, []string{"MMXXIV", "iv", "", "MCMXCIV", "dccclxxxviii"}, []string{"IIIII", "VX", "ABC", "MMXXIVx", " X", strings.Repeat("M", 200), "\xff"}},
			{"sem", []string{"text", "json"}, ver("7", "8", "9", "keep.1", "kb"), []string{"1.2.3", "v1.2.3-rc.1+b.5", "0.0.0", "10.20.30-a-b+c-d"}, []string{"", "1.2", "01.2.3", "1.2.3-", "1.2.3-01", "v", "1.2.3 ", long, "1.2.3-é"}},
			{"size", []string{"text", "json"}, dig(777), []string{"1KiB", "12 345 B", "0", "16 EiB"[:0] + "15EiB", "1024"}, []string{"", "1XB", "-1", "16EiB", "1.5KiB", "KiB", strings.Repeat("1", 200), "1e3"}},
			{"uu", []string{"text", "json"}, randID(d), []string{"123e4567-e89b-12d3-a456-426614174000", "urn:uuid:123e4567-e89b-12d3-a456-426614174000", "FFFFFFFF-FFFF-FFFF-FFFF-FFFFFFFFFFFF"},
				[]string{"", "123e4567e89b12d3a456426614174000", "123e4567-e89b-12d3-a456-42661417400g", "urn:uuid:123e4567-e89b-12d3-a456-42661417400", "123e4567-e89b-12d3-a456-4266141740000", long[:46]}},
		}
		nh := 30
		if d.Thorough() {
			nh = 25000
		}
		for gi, g := range gens {
			for h := 0; h < nh; h++ {
				if !d.Mine(gi*nh + h) {
					continue
				}
				cur := g.pre
				for step := 0; step < 12; step++ {
					kind := g.kinds[d.R.Intn(len(g.kinds))]
					var text string
					if d.R.Intn(2) == 0 {
						text = g.good[d.R.Intn(len(g.good))]
					} else {
						text = g.bad[d.R.Intn(len(g.bad))]
						if d.R.Intn(3) == 0 { // near-valid mutation of a good text
							b := []byte(g.good[d.R.Intn(len(g.good))])
							if len(b) > 0 {
								b[d.R.Intn(len(b))] = byte(d.R.Intn(256))
							}
							text = string(b)
						}
					}
					in := []byte(text)
					ev := Ev{"op": "recv.call", "pkg": g.pkg, "kind": kind, "pre": cur, "st": 1}
					switch kind {
					case "json":
						if g.pkg == "size" {
							switch d.R.Intn(4) {
							case 0:
								in = []byte(`{"value":` + strconv.Itoa(d.R.Intn(5000)) + `,"unit":"` + []string{"KiB", "B", "XB", "EiB"}[d.R.Intn(4)] + `"}`)
							case 1:
								in = []byte(strconv.Quote(text))
							case 2:
								in = []byte(`{"value":1`)
							}
						} else {
							q := []byte(strconv.Quote(text))
							switch d.R.Intn(5) {
							case 0:
								q = q[:len(q)-1]
							case 1:
								q = []byte("123")
							}
							in = q
						}
					case "binary":
						switch d.R.Intn(4) {
						case 0:
							in = []byte{1, 0, 0, 7, 232, byte(1 + d.R.Intn(12)), byte(1 + d.R.Intn(28))}
						case 1:
							in = []byte{1, 0, 0, 7, 232, byte(d.R.Intn(256)), byte(d.R.Intn(256))}
						case 2:
							in = []byte{byte(d.R.Intn(3)), 0, 0, 7, 232, 2, 2, 9, 9}[:d.R.Intn(10)]
						}
					case "scan":
						ev["srck"] = []string{"time", "time", "string", "bytes", "nil", "int", "ptime"}[d.R.Intn(7)]
						ev["srct"] = []int{1990 + d.R.Intn(50), 1 + d.R.Intn(12), 1 + d.R.Intn(28), d.R.Intn(24), (d.R.Intn(27) - 12) * 3600}
					}
					ev["in"] = B(in)
					out := d.Do(ev)
					cur = out["after"]
				}
				d.S.Boundary()
			}
		}
		// twins: every parser entry point on string, []byte, named string, named []byte
		type tw struct {
			pkg, fn string
			rules   int
		}
		tws := []tw{{"date", "", 2}, {"roman", "", 2}, {"roman", "Valid", 2}, {"sem", "Parse", 1}, {"sem", "ParseVersion", 1}, {"sem", "ParseTag", 1}, {"sem", "DefaultParser", 2}, {"size", "", 16}, {"uu", "", 4}}
		for ti, t := range tws {
			var g gen
			for _, x := range gens {
				if x.pkg == t.pkg {
					g = x
				}
			}
			texts := append(append([]string{}, g.good...), g.bad...)
			if t.pkg == "size" {
				texts = append(texts, `{"value":1,"unit":"KiB"}`, `"1KiB"`, `{"value":1,"unit":"XB"}`, `{"value":1`, "12", "[1]")
			}
			if t.pkg == "sem" {
				texts = append(texts, "v1.2.3-alpha.beta+build.meta", "1.2.3-x.y.z+1.2.3", "1.2.3-"+strings.Repeat("a", 300)+"!", strings.Repeat("1.", 200))
			}
			if t.pkg == "roman" {
				texts = append(texts, strings.Repeat("M", 99)+"x", strings.Repeat("M", 64)+"?", strings.Repeat("M", 65)+"?", "?"+strings.Repeat("I", 126))
			}
			if t.pkg == "size" {
				texts = append(texts, strings.Repeat("1", 19)+strings.Repeat("X", 90), strings.Repeat(" ", 100)+"1Q")
			}
			if t.pkg == "uu" {
				texts = append(texts, strings.Repeat("g", 36), strings.Repeat("g", 45))
			}
			// multi-byte characters around the package's default limit: the byte length is over the
			// limit while the number of characters is not (and the other way round at the limit itself)
			lim := map[string]int{"date": 10, "roman": 128, "sem": 1024, "size": 128, "uu": 45}[t.pkg]
			texts = append(texts, strings.Repeat("\u00e9", lim/2+1), strings.Repeat("\u00e9", lim/2), strings.Repeat("\u65e5", lim/3+1), "1"+strings.Repeat("\u00a0", lim/2)+"0",
				"1"+strings.Repeat("\u00a0", lim/2-1)+"0", g.good[0]+strings.Repeat("\u00a0", (lim-len(g.good[0]))/2+1))
			for xi, text := range texts {
				if !d.Mine(ti*100 + xi) {
					continue
				}
				for r := 0; r < t.rules; r++ {
					d.Do(Ev{"op": "twin", "pkg": t.pkg, "fn": t.fn, "in": B(text), "rule": r})
				}
				d.S.Boundary()
			}
			// one caller buffer, two records: every accepted text followed by a text of the same
			// length (one byte changed: another valid record, or a record that must be refused)
			if t.fn == "" || t.fn == "DefaultParser" {
				for xi, a := range g.good {
					if !d.Mine(ti*100+xi) || len(a) == 0 {
						continue
					}
					for k := 0; k < 8; k++ {
						b := []byte(a)
						pos := (k*7 + xi) % len(b)
						switch k % 4 {
						case 0:
							b[pos] = "0123456789"[(k+xi)%10]
						case 1:
							b[len(b)-1] ^= 1
						case 2:
							b[pos] = "IVXLCDMabcdef-."[(k+xi)%15]
						default:
							b[pos] = byte(d.R.Intn(256))
						}
						d.Do(Ev{"op": "twin2", "pkg": t.pkg, "a": B(a), "b": B(b), "rule": 0})
					}
					d.Do(Ev{"op": "twin2", "pkg": t.pkg, "a": B(a), "b": B(g.good[(xi+1)%len(g.good)]), "rule": 0})
					d.S.Boundary()
				}
			}
		}
		sizeDefaults(d)
	}

	// C18: totality and the limit gate under arbitrary bytes, rules and limits
	drivers["c18"] = func(d *Drv) {
		type pk struct {
			pkg   string
			def   int
			rules int
			seeds []string
		}
		pks := []pk{
			{"date", 10, 2, []string{"2024-02-29", "20240229", "123456789-12-31"}},
			{"roman", 128, 2, []string{"MCMXCIV", "mmxxiv", ""}},
			{"sem", 1024, 2, []string{"1.2.3-rc.1+b", "v10.20.30", "1.0.0-alpha.beta"}},
			{"size", 128, 16, []string{"12 345 KiB", `{"value":1,"unit":"KiB"}`, `"1KiB"`, "1024"}},
			{"uu", 45, 4, []string{"123e4567-e89b-12d3-a456-426614174000", "urn:uuid:123e4567-e89b-12d3-a456-426614174000"}},
		}
		setMax := func(p pk, max int) {
			switch p.pkg {
			case "date":
				d.Do(Ev{"op": "date.set", "max": max})
			case "roman":
				d.Do(Ev{"op": "roman.set", "max": max, "fmt": 0})
			case "sem":
				d.Do(Ev{"op": "sem.set", "max": max})
			case "size":
				sizeSet(d, false, false, false, 6, max, 16)
			case "uu":
				d.Do(Ev{"op": "uu.set", "max": max})
			}
		}
		parse := func(p pk, in []byte, rule int) {
			T := []string{"s", "b"}[d.R.Intn(2)]
			switch p.pkg {
			case "date":
				d.Do(Ev{"op": "date.parse", "in": B(in), "rule": rule, "T": T})
			case "roman":
				d.Do(Ev{"op": "roman.parse", "in": B(in), "rule": rule, "T": T})
			case "sem":
				fn := []string{"Parse", "ParseVersion", "ParseTag", "DefaultParser"}[d.R.Intn(4)]
				d.Do(Ev{"op": "sem.parse", "in": B(in), "fn": fn, "rule": rule, "T": T})
			case "size":
				doc, wf := abstractDoc(in)
				d.Do(Ev{"op": "size.parse", "in": B(in), "rule": rule, "T": T, "doc": doc, "wf": wf})
			case "uu":
				d.Do(Ev{"op": "uu.parse", "in": B(in), "rule": rule, "T": T})
			}
		}
		frag := []string{"\x00", "\xff", "\xc3", "\xc2", "\xe2", "\xe2\x80", "\xf0\x9f", "\xc3\xa9", "é", "日本語", "\U0001F600", "\xed\xa0\x80", "\xf4\x90\x80\x80", " ", " ", "\ufeff", "-", ".", "+", "v", "0", "9", "M", "i", "{", "}", "\"", "\\", ":", ",", "\u00a0", "\n", "\t", "e", "E", "K", "B"}
		fuzz := func(p pk) []byte {
			switch d.R.Intn(6) {
			case 0: // random bytes
				b := make([]byte, d.R.Intn(40))
				for i := range b {
					b[i] = byte(d.R.Intn(256))
				}
				return b
			case 1: // fragments
				var sb strings.Builder
				for n := d.R.Intn(12); n >= 0; n-- {
					sb.WriteString(frag[d.R.Intn(len(frag))])
				}
				return []byte(sb.String())
			case 2: // long run
				return []byte(strings.Repeat(frag[d.R.Intn(len(frag))], 1+d.R.Intn(200)))
			default: // mutated seed
				b := []byte(p.seeds[d.R.Intn(len(p.seeds))])
				for n := d.R.Intn(3); n >= 0 && len(b) > 0; n-- {
					pos := d.R.Intn(len(b))
					switch d.R.Intn(4) {
					case 0:
						b[pos] = byte(d.R.Intn(256))
					case 1:
						b = append(b[:pos], append([]byte(frag[d.R.Intn(len(frag))]), b[pos:]...)...)
					case 2:
						b = append(b[:pos], b[pos+1:]...)
					default:
						b = append(b, b[pos:]...)
					}
				}
				return b
			}
		}
		nr := 2500
		if d.Thorough() {
			nr = 60000
		}
		for pi, p := range pks {
			// (1) the limit matrix: MaxInputLength in {0, 1, default, default+1}, lengths limit-1, limit, limit+1, 10x
			for _, max := range []int{0, 1, p.def, p.def + 1} {
				if !d.Mine(pi*4 + max) {
					continue
				}
				setMax(p, max)
				lim := max
				if lim == 0 {
					lim = p.def
				}
				big := 10 * lim
				if max == 0 && big > 400 {
					big = lim + 300 // with the limit off the whole input is parsed: keep it moderate
				}
				// every seed text in full under this limit, whatever its length
				for _, s := range p.seeds {
					for r := 0; r < p.rules; r++ {
						parse(p, []byte(s), r)
					}
				}
				// truncated multi-byte sequences at the very end (a look-ahead must not run past the input)
				for _, tail := range []string{"\xc2", "\xc3", "\xe2", "\xe2\x80", "\xf0", "\xf0\x9f\x98", "\xa0", "\x80"} {
					for _, head := range []string{"", "1", "10 ", "1 K", p.seeds[0]} {
						parse(p, []byte(head+tail), 0)
						parse(p, []byte(head+tail), p.rules-1)
					}
				}
				// a few rules for the derived variants below (all rules for the plain fills)
				few := []int{0, p.rules - 1}
				if p.rules > 2 {
					few = append(few, 2, 6)
				}
				for _, n := range []int{0, 1, lim - 1, lim, lim + 1, lim + 2, big, big + 1} {
					if n < 0 {
						continue
					}
					fills := []string{"9", "M", "a", "\xff", "é", "1.", "\u00a0"}
					if n > 600 && !d.Thorough() {
						fills = []string{"9", "1.", "\xff"} // very long inputs: fewer fill patterns in the quick tier
					}
					for _, fill := range fills {
						in := []byte(strings.Repeat(fill, n/len(fill)+1))[:n]
						for r := 0; r < p.rules; r++ {
							parse(p, in, r)
						}
						// valid text padded / cut to the length
						for _, s := range p.seeds {
							if len(s) >= n {
								parse(p, []byte(s[:n]), 0)
							}
						}
						if n >= 2 { // a well-formed JSON string of exactly n bytes
							q := append(append([]byte{'"'}, in[:n-2]...), '"')
							for _, r := range few {
								parse(p, q, r)
							}
						}
						// the same length reached with a form prefix that some parsers strip before matching
						for _, pre := range []string{"v", "urn:uuid:", " ", "\""} {
							if n > len(pre) {
								x := append([]byte(pre), in[:n-len(pre)]...)
								for _, r := range few {
									parse(p, x, r)
								}
							}
						}
					}
				}
				d.S.Boundary()
			}
			// (1b) every position of every seed replaced by bytes outside ASCII and by NUL
			setMax(p, p.def)
			for _, seed := range p.seeds {
				for pos := 0; pos < len(seed); pos++ {
					if !d.Mine(pos) {
						continue
					}
					for _, c := range []byte{0x00, 0x7f, 0x80, 0xa0, 0xc3, 0xff} {
						b := []byte(seed)
						b[pos] = c
						parse(p, b, d.R.Intn(p.rules))
					}
				}
			}
			// (2) fuzz under the default limit and with the limit off
			for _, max := range []int{p.def, 0} {
				setMax(p, max)
				for i := 0; i < nr/d.NShards; i++ {
					parse(p, fuzz(p), d.R.Intn(p.rules))
					d.S.Boundary()
				}
			}
			setMax(p, p.def)
		}
		// (2b) comparators on every ordered pair of degenerate identifier lists
		if d.Shard == 0 {
			deg := []string{"", ".", "..", "a.", ".a", "rc..1", "1.", ".1", "a..b", "-", "+", "\x00", "0", "00", "a", "1.a.", "\xff.\xff", "\u212a"}
			for _, a := range deg {
				for _, b := range deg {
					d.Do(Ev{"op": "sem.cmpraw", "a": B(a), "b": B(b)})
					d.Do(Ev{"op": "sem.htext", "a": B("1.0.0-" + a), "b": B("1.0.0-" + b)})
				}
			}
		}
		// (3) comparators, helpers, Valid, Unmarshal*/Scan on arbitrary bytes
		for i := 0; i < nr/d.NShards; i++ {
			a, b := fuzz(pks[2]), fuzz(pks[2])
			if i%3 == 0 {
				b = append([]byte{}, a...)
				if len(b) > 0 {
					b[d.R.Intn(len(b))] ^= byte(1 << uint(d.R.Intn(8)))
				}
			}
			if i%7 == 0 {
				a = []byte(frag[d.R.Intn(len(frag))] + "a")
				b = []byte(frag[d.R.Intn(len(frag))] + frag[d.R.Intn(len(frag))])
			}
			d.Do(Ev{"op": "sem.cmpraw", "a": B(a), "b": B(b)})
			d.Do(Ev{"op": "sem.htext", "a": B(a), "b": B(b)})
			p := pks[d.R.Intn(len(pks))]
			kind := []string{"text", "json"}[d.R.Intn(2)]
			if p.pkg == "date" && d.R.Intn(3) == 0 {
				kind = "binary"
			}
			var pre any
			switch p.pkg {
			case "date":
				pre = []int{2001, 2, 3}
			case "roman":
				pre = 7
			case "sem":
				pre = ver("1", "2", "3", "", "")
			case "size":
				pre = dig(5)
			case "uu":
				pre = make([]int, 32)
			}
			d.Do(Ev{"op": "recv.call", "pkg": p.pkg, "kind": kind, "in": B(fuzz(p)), "pre": pre})
			d.S.Boundary()
		}
		// megabyte inputs ("very long runs"): described by their shape, see ops_giant.go
		type shape struct {
			pkg, unit, sa, sb string
		}
		shapes := []shape{
			{"sem.cmp", "a.", "10", "9.1"}, {"sem.cmp", "a.", "x", "x"}, {"sem.cmp", "1.", "1", "a"}, {"sem.cmp", "0.B-.", "b", "a.1"}, {"sem.cmp", "a.", "a", "a.1"},
			{"roman", "M", "", ""}, {"roman", "I", "M", "X"}, {"roman", "mdclxvi", "", ""},
			{"date", "9", "", ""}, {"date", "0", "2024-01-", ""}, {"date", "-", "2024", "01"},
			{"sem", "a.", "1.2.3-", "a"}, {"sem", "1", "", ""}, {"sem", "0", "1.2.3-", ""}, {"sem", ".", "1", "2"},
			{"size", "9", "", ""}, {"size", " ", "1", "0"}, {"size", "\u00a0", "1", "0 KiB"}, {"size", "0", "", "1B"}, {"size", "[", "", ""}, {"size", "{\"a\":", "", "1"},
			{"uu", "a", "urn:uuid:", ""}, {"uu", "-", "", ""}, {"uu", "0", "", ""},
		}
		k := 0
		for si, sh := range shapes {
			ns := []int{1 << 17}
			if sh.pkg == "sem.cmp" {
				ns = []int{1 << 16}
				if si == 0 || d.Thorough() {
					ns = append(ns, 10000000) // beyond what a 1 GiB goroutine stack holds at one small frame per identifier
				}
			}
			if d.Thorough() {
				ns = append(ns, 1<<22)
			}
			for _, n := range ns {
				// no limit, the default-sized limit, a limit of exactly the input's length, one below it
				l := len(sh.sa) + n*len(sh.unit) + len(sh.sb)
				for _, max := range []int{0, 128, l, l - 1} {
					if sh.pkg == "sem.cmp" && max != 0 {
						continue
					}
					k++
					if !d.Mine(k) {
						continue
					}
					d.Do(Ev{"op": "giant", "pkg": sh.pkg, "unit": B(sh.unit), "n": n, "sa": B(sh.sa), "sb": B(sh.sb), "max": max, "T": []string{"s", "b"}[k%2]})
				}
			}
		}
		d.S.Boundary()
	}
}
