package main

import (
	"encoding/json"
	"fmt"
	"math"
	"strconv"
	"strings"
)

func sizeSet(d *Drv, dmtu, dmjs, dmjo bool, rule, max, keys int) {
	d.Do(Ev{"op": "size.set", "dmtu": dmtu, "dmjs": dmjs, "dmjo": dmjo, "rule": rule, "max": max, "keys": keys})
}

func sizeDefaults(d *Drv) { sizeSet(d, false, false, false, 6, 128, 16) }

// stratified 64-bit values: every trailing-zero count, every decimal length, neighbourhoods of
// 1000^k, 1024^k, 2^k, 2^64-1
func sizeStrata(d *Drv, nrand int) []uint64 {
	seen := map[uint64]bool{}
	out := []uint64{}
	add := func(v uint64) {
		if !seen[v] {
			seen[v] = true
			out = append(out, v)
		}
	}
	for k := 0; k < 64; k++ {
		for _, odd := range []uint64{1, 3, 5, 1023, 1025, 999, 1001, 0xffffffff, d.R.U64() | 1} {
			hi := odd << k
			if hi>>k == odd {
				add(hi)
			}
		}
		add(1<<k - 1)
		add(1<<k + 1)
	}
	p10 := uint64(1)
	for l := 1; l <= 20; l++ {
		add(p10)
		add(p10 - 1)
		add(p10 + 1)
		add(p10 * 9)
		add(p10*9 + p10/3)
		if l < 20 {
			p10 *= 10
		}
	}
	for _, base := range []uint64{1000, 1024} {
		p := uint64(1)
		for k := 0; k <= 6; k++ {
			for delta := -3; delta <= 3; delta++ {
				add(p + uint64(delta))
				add(p*7 + uint64(delta))
			}
			if k < 6 {
				p *= base
			}
		}
	}
	for delta := uint64(0); delta < 40; delta++ {
		add(math.MaxUint64 - delta)
		add(delta)
		add(1<<63 + delta)
		add(1<<63 - delta)
		add(math.MaxUint64 - delta*1024)
	}
	for i := 0; i < nrand; i++ {
		v := d.R.U64()
		switch i % 4 {
		case 1:
			v >>= uint(d.R.Intn(64))
		case 2:
			v <<= uint(d.R.Intn(64))
		case 3:
			v = (v >> uint(d.R.Intn(60))) * 1000
		}
		add(v)
	}
	return out
}

var allUnits = []string{"", "B", "kB", "MB", "GB", "TB", "PB", "EB", "ZB", "YB", "KiB", "MiB", "GiB", "TiB", "PiB", "EiB", "ZiB", "YiB"}
var unitMult = map[string]*[2]uint64{} // unit -> (base, exp)

func multOf(u string) (uint64, bool) {
	switch u {
	case "", "B":
		return 1, true
	}
	dec := []string{"kB", "MB", "GB", "TB", "PB", "EB"}
	bin := []string{"KiB", "MiB", "GiB", "TiB", "PiB", "EiB"}
	for i, x := range dec {
		if x == u {
			m := uint64(1)
			for j := 0; j <= i; j++ {
				m *= 1000
			}
			return m, true
		}
	}
	for i, x := range bin {
		if x == u {
			return 1 << (10 * uint(i+1)), true
		}
	}
	return 0, false
}

// abstractDoc derives, with encoding/json only, the abstract structure of a JSON input: whether
// it is exactly one well-formed value, and the document kinds the specification speaks about.
func abstractDoc(in []byte) (Ev, bool) {
	other := Ev{"k": "other"}
	if !json.Valid(in) {
		return other, false
	}
	dec := json.NewDecoder(strings.NewReader(string(in)))
	dec.UseNumber()
	memberVal := func() Ev {
		t, err := dec.Token()
		if err != nil {
			fatal("abstractDoc: %v", err)
		}
		switch v := t.(type) {
		case json.Number:
			return Ev{"k": "num", "text": B(v.String())}
		case string:
			return Ev{"k": "str", "val": B(v)}
		case json.Delim:
			depth := 1
			for depth > 0 {
				t2, err := dec.Token()
				if err != nil {
					fatal("abstractDoc: %v", err)
				}
				if dl, ok := t2.(json.Delim); ok {
					if dl == '{' || dl == '[' {
						depth++
					} else {
						depth--
					}
				}
			}
			return other
		}
		return other
	}
	t, err := dec.Token()
	if err != nil {
		return other, false
	}
	switch v := t.(type) {
	case json.Number:
		return Ev{"k": "num", "text": B(v.String())}, true
	case string:
		return Ev{"k": "str", "val": B(v)}, true
	case json.Delim:
		if v != '{' {
			return other, true
		}
		members := []any{}
		for dec.More() {
			kt, err := dec.Token()
			if err != nil {
				fatal("abstractDoc: %v", err)
			}
			members = append(members, Ev{"key": B(kt.(string)), "v": memberVal()})
		}
		return Ev{"k": "obj", "members": members}, true
	}
	return other, true
}

func init() {
	// C04 (+C13): every marshal form and configuration
	marshalDriver := func(d *Drv, configs [][3]bool, nrand int, small int) {
		vals := sizeStrata(d, nrand)
		for ci, c := range configs {
			sizeSet(d, c[0], c[1], c[2], 6, 128, 16)
			for i, v := range vals {
				if d.Mine(i + ci) {
					d.Do(Ev{"op": "size.marshal", "n": dig(v)})
					d.S.Boundary()
				}
			}
			a, b := d.Span(0, small)
			for v := a; v <= b; v++ {
				if ci == 0 || v%8 == ci {
					d.Do(Ev{"op": "size.marshal", "n": dig(uint64(v))})
					d.S.Boundary()
				}
			}
		}
		sizeDefaults(d)
	}
	all8 := [][3]bool{}
	for i := 0; i < 8; i++ {
		all8 = append(all8, [3]bool{i&1 != 0, i&2 != 0, i&4 != 0})
	}
	drivers["c04"] = func(d *Drv) {
		if d.Thorough() {
			marshalDriver(d, all8, 60000, 1<<20)
		} else {
			marshalDriver(d, all8, 1500, 1<<12)
		}
	}
	drivers["c13"] = func(d *Drv) {
		if d.Thorough() {
			marshalDriver(d, all8[:1], 300000, 1<<20)
			marshalDriver(d, all8[1:], 6000, 1<<12)
		} else {
			marshalDriver(d, all8[:1], 8000, 1<<14)
			// the renderings do not depend on the marshalling switches: the other seven configurations
			marshalDriver(d, all8[1:], 200, 1<<8)
		}
	}

	// C08: exact or refused
	drivers["c08"] = func(d *Drv) {
		sizeDefaults(d)
		parse := func(in string, rule int) {
			d.Do(Ev{"op": "size.parse", "in": B(in), "rule": rule, "T": []string{"s", "b"}[len(in)%2]})
			d.S.Boundary()
		}
		// (0) the JSON object form is a number and a unit too: boundary products, and numbers written
		// with fraction or exponent (the text grammar has neither, so they are refused - in
		// particular they are never rounded through a float)
		parseJ := func(in string) {
			doc, wf := abstractDoc([]byte(in))
			d.Do(Ev{"op": "size.parse", "in": B(in), "rule": 6, "T": []string{"s", "b"}[len(in)%2], "doc": doc, "wf": wf})
			d.S.Boundary()
		}
		if d.Mine(1) {
			// the JSON number form: a number of bytes
			for _, v := range []string{"0", "1", "-1", "-0", "-9223372036854775808", "-18446744073709551615", "9223372036854775807", "9223372036854775808", "18446744073709551615",
				"18446744073709551616", "1.5", "1.0", "1e3", "-1e3", "1e-3", "36893488147419103232", "0.0", "00", "-", "1E19"} {
				parseJ(v)
				parseJ(" " + v + "\n")
			}
		}
		if d.Mine(2) {
			// a refused document with bytes after its first value, then an ordinary one: nothing of
			// the former may reach the latter
			for _, pair := range [][2]string{{"false 12", "7"}, {`"1kB" 9`, "3"}, {"null 4", `{"value":2,"unit":"B"}`}, {"true{", `{"value":5,"unit":"kB"}`}, {"1 2", "4"}, {`{"value":1,"unit":"B"} 8`, "6"}} {
				for _, rule := range []int{6, 4, 2} {
					for _, in := range pair[:] {
						doc, wf := abstractDoc([]byte(in))
						d.Do(Ev{"op": "size.parse", "in": B(in), "rule": rule, "T": []string{"s", "b"}[len(in)%2], "doc": doc, "wf": wf})
					}
				}
			}
			d.S.Boundary()
		}
		for ui, u := range allUnits {
			if !d.Mine(ui + 3) {
				continue
			}
			vals := []string{"0", "1", "1023", "1024", "18014398509481984", "18014398509481985", "9007199254740993", "18446744073709551615", "18446744073709551616"}
			if m, ok := multOf(u); ok {
				q := uint64(math.MaxUint64) / m
				for _, v := range []uint64{q - 2, q - 1, q} {
					vals = append(vals, strconv.FormatUint(v, 10))
				}
				if q < math.MaxUint64-2 {
					vals = append(vals, strconv.FormatUint(q+1, 10), strconv.FormatUint(q+2, 10))
				}
			}
			for _, v := range vals {
				parseJ(`{"value":` + v + `,"unit":"` + u + `"}`)
				parseJ(`{"unit":"` + u + `","value":` + v + `}`)
			}
			for _, v := range []string{"10.0", "1e3", "2.5e6", "9007199254740993.0", "4503599627370496.5", "1.5", "-1", "-0", "1E2", "0.0", "18446744073709551615.0", "1e19", "1e20", "0e0"} {
				parseJ(`{"value":` + v + `,"unit":"` + u + `"}`)
			}
		}
		// (1) for each unit: values around floor((2^64-1)/mult), around 0, powers of two and ten
		width := 60
		if d.Thorough() {
			width = 1000
		}
		for ui, u := range append(allUnits, "XB", "b", "kb", "KB", "Kib", "kiB", "mB", "iB", "BB", "k", "K", "B ", "EiBB") {
			if !d.Mine(ui) {
				continue
			}
			m, known := multOf(u)
			cands := []uint64{0, 1, 2, 7, 9, 10, 99, 100, 1023, 1024, 1025, 65535, 65536, 1 << 32, 1<<32 - 1, 1 << 53, 1<<63 - 1, 1 << 63, math.MaxUint64, math.MaxUint64 - 1}
			if known {
				lim := uint64(math.MaxUint64) / m
				for delta := 0; delta <= width; delta++ {
					cands = append(cands, lim-uint64(delta), lim+uint64(delta), uint64(delta))
				}
			}
			for i := 0; i < 30; i++ {
				cands = append(cands, d.R.U64()>>uint(d.R.Intn(64)))
			}
			for _, v := range cands {
				vs := strconv.FormatUint(v, 10)
				parse(vs+u, 0)
				if v%5 == 0 {
					parse(vs+" "+u, 0)
					parse(vs+u, 1)
				}
				d.Do(Ev{"op": "size.new", "kind": "uint64", "repr": vs, "unit": B(u)})
			}
			// beyond 64 bits as text
			for _, vs := range []string{"0100", "0010", "08", "09", "0755", "0x10", "0b1", "0o7", "1_0", "18446744073709551616", "18446744073709551615", "99999999999999999999", "100000000000000000000000", "000000000000000000000000001", "00"} {
				parse(vs+u, 0)
			}
		}
		// (2) grammar-generated texts with every separator placement
		seps := []string{"", " ", "_", " ", "  ", " _", "_ ", "  ", "__"}
		numbers := [][]string{{"0100"}, {"08"}, {"0", "755"}, {"010"}, {"09"}, {"1"}, {"1", "000"}, {"12", "345", "678"}, {"0"}, {"0", "0"}, {"1", "8", "4"}, {"18446744073709551", "615"}, {"18", "446744073709551616"}}
		units := []string{"", "B", "KiB", "kB", "EiB", "ZB", "XB", "MiB"}
		k := 0
		for _, ns := range numbers {
			for _, isep := range seps {
				for _, usep := range seps {
					for _, u := range units {
						for _, lead := range []string{"", " ", "   ", "_", " "} {
							for _, trail := range []string{"", " ", "  ", "   ", "_", " ", " _"} {
								k++
								if !d.Mine(k) {
									continue
								}
								if !d.Thorough() && k%3 != 0 && !(lead == "" && (trail == "" || trail == "  ")) {
									continue
								}
								parse(lead+strings.Join(ns, isep)+usep+u+trail, (k/7)%2)
							}
						}
					}
				}
			}
		}
		if d.Shard == 4%d.NShards {
			for _, cf := range confusables {
				for _, t := range []string{cf, "1" + cf, cf + "1", "1" + cf + "KiB", "1 " + cf + "B", "1K" + cf + "B"} {
					parse(t, 0)
				}
			}
		}
		// other texts
		if d.Shard == 0 {
			for _, s := range []string{"", " ", "  ", "_", "KiB", " KiB", "-1", "+1", "-0", "1.5", "1.5KiB", "1e3", "1,000", "１", "1 K iB", "1KiB1", "1Ki B", "0x10", "1\t", "1\n", "\t1", "1 \xa0KiB", "1\xc2KiB", "1\xa0", "١", "1_000_000", "1 000 000 B", "1 000 kB"} {
				parse(s, 0)
				parse(s, 1)
			}
		}
		// (3) New over all numeric kinds
		type nc struct{ kind, repr string }
		f64 := func(x float64) string { return strconv.FormatUint(math.Float64bits(x), 16) }
		f32 := func(x float32) string { return strconv.FormatUint(uint64(math.Float32bits(x)), 16) }
		cases := []nc{}
		for _, kb := range []struct {
			k    string
			bits int
		}{{"int8", 8}, {"int16", 16}, {"int32", 32}, {"int64", 64}, {"int", 64}, {"myInt8", 8}, {"myInt64", 64}} {
			max := int64(1)<<(uint(kb.bits)-1) - 1
			for _, v := range []int64{0, 1, -1, 2, 100, max, max - 1, -max, -max - 1, max / 1000, max / 1024, 17, 18, 16, 15, 9223372036854775, 9007199254740993} {
				if v <= max && v >= -max-1 {
					cases = append(cases, nc{kb.k, strconv.FormatInt(v, 10)})
				}
			}
		}
		for _, kb := range []struct {
			k    string
			bits int
		}{{"uint8", 8}, {"uint16", 16}, {"uint32", 32}, {"uint64", 64}, {"uint", 64}, {"myUint16", 16}, {"myUint64", 64}} {
			max := uint64(math.MaxUint64)
			if kb.bits < 64 {
				max = 1<<uint(kb.bits) - 1
			}
			for _, v := range []uint64{0, 1, 2, 100, max, max - 1, max / 1000, max/1000 + 1, max / 1024, max/1024 + 1, 17, 18, 16, 15, 1 << 53, 1<<53 + 1, 18014398509481983, 18014398509481984, 18446744073709551} {
				if v <= max {
					cases = append(cases, nc{kb.k, strconv.FormatUint(v, 10)})
				}
			}
		}
		for _, x := range []float64{0, math.Copysign(0, -1), 1, -1, 0.5, 1.5, 1e-300, -1e-300, 2, 1000, 1023.999, 1024, 1 << 24, 1<<24 + 1, 1 << 53, 1<<53 + 2, 1<<53 - 1, 1 << 62, 1 << 63, 18446744073709549568, 18446744073709551616, 1e19, 1e20, 1e30, 1e300, math.MaxFloat64, math.Inf(1), math.Inf(-1), math.NaN(), 17.0, 16.0, 15.99, 18014398509481984, 18014398509481982, 17592186044416, math.SmallestNonzeroFloat64} {
			cases = append(cases, nc{"float64", f64(x)}, nc{"myFloat64", f64(x)})
		}
		for _, x := range []float32{0, 1, -1, 0.5, 1.5, 2, 1000, 1024, 1 << 24, 1<<24 + 2, 1 << 31, 1 << 62, 1 << 63, 18446742974197923840, 18446744073709551616, 1e30, math.MaxFloat32, float32(math.Inf(1)), float32(math.Inf(-1)), float32(math.NaN()), 16, 15, 17, math.SmallestNonzeroFloat32} {
			cases = append(cases, nc{"float32", f32(x)}, nc{"myFloat32", f32(x)})
		}
		for i := 0; i < 200; i++ {
			cases = append(cases, nc{"float64", f64(math.Float64frombits(d.R.U64()))}, nc{"float32", f32(math.Float32frombits(uint32(d.R.U64())))})
			cases = append(cases, nc{"float64", f64(float64(d.R.U64() >> uint(d.R.Intn(64))))}, nc{"float32", f32(float32(d.R.U64() >> uint(d.R.Intn(64))))})
			cases = append(cases, nc{"int64", strconv.FormatInt(int64(d.R.U64()), 10)}, nc{"uint64", strconv.FormatUint(d.R.U64()>>uint(d.R.Intn(64)), 10)})
		}
		for ci, c := range cases {
			if !d.Mine(ci) {
				continue
			}
			for _, u := range append(allUnits, "XB", "kb") {
				d.Do(Ev{"op": "size.new", "kind": c.kind, "repr": c.repr, "unit": B(u)})
			}
			d.S.Boundary()
		}
		// (4) Bytes[N] for all kinds at each type's max, max+1, float mantissa boundaries
		kinds := []string{"int", "int8", "int16", "int32", "int64", "uint", "uint8", "uint16", "uint32", "uint64", "float32", "float64", "myInt8", "myUint16", "myInt64", "myUint64", "myFloat32", "myFloat64"}
		bv := []uint64{0, 1, 126, 127, 128, 129, 254, 255, 256, 32767, 32768, 65535, 65536, 1<<31 - 1, 1 << 31, 1<<32 - 1, 1 << 32, 1<<63 - 1, 1 << 63, 1<<63 + 1, math.MaxUint64,
			1<<24 - 1, 1 << 24, 1<<24 + 1, 1<<24 + 2, 1<<25 + 2, 1<<25 + 4, 1<<53 - 1, 1 << 53, 1<<53 + 1, 1<<53 + 2, 1<<54 + 2, 1<<54 + 4, 3 << 62, 0xffffff << 40, 0x1ffffff << 39, 0x1fffffffffffff << 11, 0x3fffffffffffff << 10}
		for delta := uint64(0); delta <= 2048; delta++ {
			if delta < 40 || delta%64 == 0 || delta > 2040 || d.Thorough() {
				bv = append(bv, math.MaxUint64-delta)
			}
		}
		for i := 0; i < 300; i++ {
			bv = append(bv, d.R.U64()>>uint(d.R.Intn(64)), (d.R.U64()>>uint(40+d.R.Intn(24)))<<uint(d.R.Intn(40)))
		}
		for vi, v := range bv {
			if !d.Mine(vi) {
				continue
			}
			for _, kd := range kinds {
				d.Do(Ev{"op": "size.bytes", "n": dig(v), "gokind": kd})
			}
			d.S.Boundary()
		}
		if d.Shard == 0 {
			for _, kd := range kinds {
				d.Do(Ev{"op": "constraint.kind", "gokind": kd})
			}
		}
	}

	// C12: JSON forms. Documents are generated as text; the abstract document of every input is
	// derived from the bytes with encoding/json (abstractDoc).
	drivers["c12"] = func(d *Drv) {
		sizeDefaults(d)
		keys := 16
		setKeys := func(k int) {
			if k != keys {
				keys = k
				sizeSet(d, false, false, false, 6, 4096, k)
			}
		}
		sizeSet(d, false, false, false, 6, 4096, 16)
		parse := func(in string, rule int) {
			doc, wf := abstractDoc([]byte(in))
			d.Do(Ev{"op": "size.parse", "in": B(in), "rule": rule, "T": []string{"s", "b"}[len(in)%2], "doc": doc, "wf": wf})
			d.S.Boundary()
		}
		jsonRules := []int{2, 3, 4, 5, 6, 7, 10, 11, 12, 13, 14, 15}
		// (1) numbers and strings under every JSON rule
		scalars := []string{"0", "1", "12", "18446744073709551615", "18446744073709551616", "-1", "-0", "1.5", "1e3", "1E2", "0.0", "1.0", "01", "+1", " 12 ", "\n12\t", "12 13", "12,", "1_000",
			`"1KiB"`, `"1 KiB"`, `"1KiB"`, `"1 000 kB"`, `"1_000"`, `""`, `" "`, `"abc"`, `"1KiB  "`, `" 1KiB "`, `"-1"`, `"1.5KiB"`, `"16EiB"`, `"15EiB"`, `"0ZB"`, `"1ZB"`, `"1XB"`, `"18446744073709551616"`,
			`"1\x30"`, `"\061\060"`, `"1\U00000030"`, `"10\x20KiB"`, `"1\a"`, `"\u0031\u0030"`, `"1\/0"`, `"1\'0"`,
			`"1KiB`, `1KiB"`, `"1KiB""`, `"1KiB" "x"`, `'1KiB'`, "true", "false", "null", "[]", "[1]", `["1KiB"]`, `[{"value":1,"unit":"B"}]`, "{}", "{", "}", "", " ", "nul", `"\ud800"`, `"1\tKiB"`}
		for i, s := range scalars {
			if !d.Mine(i) {
				continue
			}
			for _, r := range jsonRules {
				parse(s, r)
			}
		}
		// (2) objects: every sequence of up to 3 members from the member alphabet, random longer ones
		members := []string{`"value":1`, `"value":7`, `"VALUE":2`, `"Value":18446744073709551615`, `"value":-1`, `"value":1.5`, `"value":"1"`, `"value":{"a":1}`, `"value":null`, `"value":18446744073709551616`,
			`"value":18447`, `"value":19`, `"value":1e3`, `"value":10.0`, `"value":9007199254740993.0`, `"unit":"PB"`, `"unit":"EB"`, `"unit":"KiB"`, `"unit":"B"`, `"UNIT":"kB"`, `"Unit":"EiB"`, `"unit":"XB"`, `"unit":1`, `"unit":["B"]`, `"unit":null`, `"unit":""`,
			`"x":1`, `"y":"s"`, `"z":null`, `"n":{"value":9,"unit":"GB","d":[1,[2,[3,{"e":{}}]]]}`, `"a":[1,{"unit":"B"},[[]]]`, `"valu":1`, `"units":"B"`, `"":0`, `"value":3`}
		ser := func(ms []string, style int) string {
			switch style % 4 {
			case 1:
				return "{ " + strings.Join(ms, " , ") + " }"
			case 2:
				return "\n{\n\t" + strings.Join(ms, ",\n\t") + "\n}\n"
			case 3:
				return "{" + strings.ReplaceAll(strings.Join(ms, ","), `":`, `" : `) + "}"
			}
			return "{" + strings.Join(ms, ",") + "}"
		}
		n := 0
		objs := [][]string{{}}
		for _, a := range members {
			objs = append(objs, []string{a})
			for _, b := range members {
				objs = append(objs, []string{a, b})
			}
		}
		core := members[:26]
		for _, a := range core {
			for _, b := range core {
				for _, c := range members {
					objs = append(objs, []string{a, b, c}, []string{c, a, b})
				}
			}
		}
		nr := 1500
		if d.Thorough() {
			nr = 60000
		}
		for i := 0; i < nr; i++ {
			l := 3 + d.R.Intn(4)
			if d.R.Intn(10) == 0 {
				l = 14 + d.R.Intn(6)
			}
			ms := make([]string, l)
			for j := range ms {
				if l > 8 {
					ms[j] = fmt.Sprintf(`"k%d":%d`, j, j)
				} else {
					ms[j] = members[d.R.Intn(len(members))]
				}
			}
			if l > 8 {
				ms[d.R.Intn(l)] = `"value":5`
				ms[d.R.Intn(l)] = `"unit":"MiB"`
			}
			objs = append(objs, ms)
		}
		keyChoices := []int{0, 1, 2, 3, 16}
		for _, kc := range keyChoices {
			setKeys(kc)
			for oi, ms := range objs {
				n++
				if !d.Mine(oi) {
					continue
				}
				full := oi%11 == 0 || d.Thorough()
				if !full && (oi+kc)%5 != 0 {
					continue
				}
				text := ser(ms, oi)
				if full {
					for _, r := range jsonRules {
						parse(text, r)
					}
				} else {
					parse(text, []int{4, 6, 12, 14, 5, 7}[(oi/5)%6])
				}
			}
		}
		// (3) every truncation and trailing bytes of a set of documents
		setKeys(16)
		docs := []string{`{"value":1,"unit":"KiB"}`, `{"unit":"B","value":12,"x":[1,{"y":2}]}`, `"1KiB"`, `1024`, `{"x":{"value":1},"value":2,"unit":"MB"}`, ` { "value" : 3 , "unit" : "GiB" } `}
		for di, doc := range docs {
			if !d.Mine(di) {
				continue
			}
			for cut := 0; cut <= len(doc); cut++ {
				parse(doc[:cut], 6)
				if cut%3 == 0 {
					parse(doc[:cut], 14)
				}
			}
			for _, tr := range []string{" ", "\n", " x", "x", "}", "]", ",", "1", " 1", "{}", `"a"`, " {}", "\x00", ",{}", ":", " null"} {
				parse(doc+tr, 6)
				parse(doc+tr, 2)
				parse(doc+tr, 4)
			}
			for _, ld := range []string{" ", "\n\t", "x", "{", "[", ",", "\ufeff"} {
				parse(ld+doc, 6)
			}
		}
		// (4) member counts around MaxObjectKeys, with value/unit first, last and in the middle
		for _, kc := range []int{0, 1, 2, 3, 4, 16, 17} {
			setKeys(kc)
			if !d.Mine(kc) {
				continue
			}
			for total := 2; total <= 20; total++ {
				if total > 6 && total < 15 {
					continue
				}
				for _, pos := range [][2]int{{0, 1}, {total - 2, total - 1}, {0, total - 1}, {total / 2, total/2 + 1}, {total - 1, 0}} {
					if pos[0] == pos[1] || pos[1] >= total || pos[0] >= total {
						continue
					}
					ms := make([]string, total)
					for j := range ms {
						ms[j] = fmt.Sprintf(`"k%d":[%d]`, j, j)
					}
					ms[pos[0]] = `"value":3`
					ms[pos[1]] = `"unit":"kB"`
					for _, r := range []int{4, 6, 12} {
						parse(ser(ms, total), r)
					}
				}
			}
		}
		sizeDefaults(d)
	}
}
