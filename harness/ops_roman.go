package main

import (
	"errors"
	"fmt"
	"strings"

	"go.lstv.dev/util/roman"
)

func romanIs(err error) []string {
	out := []string{}
	if errors.Is(err, roman.ErrInputTooLong) {
		out = append(out, "ErrInputTooLong")
	}
	return out
}

func romanTyped(err error) bool {
	var a *roman.NumberFormatError[string]
	var b *roman.NumberFormatError[[]byte]
	var c *roman.NumberFormatError[myStr]
	var d *roman.NumberFormatError[myBytes]
	return errors.As(err, &a) || errors.As(err, &b) || errors.As(err, &c) || errors.As(err, &d)
}

// clampN logs a parsed number; values beyond int32 cannot come from inputs the drivers use
// (numerals up to a few hundred bytes) and are reported as -2.
func clampN(n roman.Number) int {
	if uint64(n) > 1<<30 {
		return -2
	}
	return int(n)
}

// ownRoman is the harness's own standard (subtractive) numeral, independent of the library's formatter.
func ownRoman(n int) string {
	var sb strings.Builder
	for ; n >= 1000; n -= 1000 {
		sb.WriteByte('M')
	}
	vals := []int{900, 500, 400, 100, 90, 50, 40, 10, 9, 5, 4, 1}
	syms := []string{"CM", "D", "CD", "C", "XC", "L", "XL", "X", "IX", "V", "IV", "I"}
	for i, v := range vals {
		for n >= v {
			sb.WriteString(syms[i])
			n -= v
		}
	}
	return sb.String()
}

func romanParse(in []byte, rule roman.Rule, T string) (n roman.Number, err error, panicked bool) {
	panicked = try(func() {
		switch T {
		case "s":
			n, err = roman.DefaultParser(string(in), rule)
		case "S":
			n, err = roman.DefaultParser(myStr(in), rule)
		case "B":
			n, err = roman.DefaultParser(myBytes(reused(in)), rule)
		default:
			n, err = roman.DefaultParser(reused(in), rule)
		}
	})
	return
}

func init() {
	ops["roman.set"] = func(e Ev) Ev {
		roman.MaxInputLength = num(e["max"])
		roman.DefaultFormat = roman.Format(num(e["fmt"]))
		return e
	}

	// C02: DefaultFormatter under all 128 flag subsets, parsed back and validated
	ops["roman.fmtall"] = func(e Ev) Ev {
		n := roman.Number(num(e["n"]))
		outs := make([]string, 128)
		backs := make([]int, 128)
		valids := make([]int, 128)
		for k := 0; k < 128; k++ {
			f := k
			if n%2 == 1 { // odd numbers take the flag sets in descending order (what a process formats first varies)
				f = 127 - k
			}
			b, err := roman.DefaultFormatter(nil, n, roman.Format(f))
			if err != nil {
				b = []byte("!error")
			}
			outs[f] = S(b)
			var v roman.Number
			var perr error
			if f%2 == 0 {
				v, perr = roman.DefaultParser(string(b), 0)
			} else {
				v, perr = roman.DefaultParser(reused(b), 0)
			}
			if perr != nil {
				backs[f] = -1
			} else {
				backs[f] = clampN(v)
			}
			switch f % 3 {
			case 0:
				valids[f] = b2i(roman.Valid(string(b), 0) == nil)
			case 1:
				valids[f] = b2i(roman.Valid(b, 0) == nil)
			default:
				valids[f] = b2i(roman.Valid(myBytes(b), 0) == nil)
			}
		}
		e["outs"], e["backs"], e["valids"] = outs, backs, valids
		return e
	}

	// C02: MarshalText / String / verbs under the current DefaultFormat, UnmarshalText back
	ops["roman.paths"] = func(e Ev) Ev {
		n := roman.Number(num(e["n"]))
		mt, err := n.MarshalText()
		if err != nil {
			mt = []byte("!error")
		}
		e["mt"], e["str"] = S(mt), S(n.String())
		keep := append([]byte(nil), mt...)
		for i := range mt {
			mt[i] = '#'
		}
		mt2, err2 := n.MarshalText()
		if err2 != nil {
			mt2 = []byte("!error")
		}
		e["mt2"] = S(mt2)
		mt = keep
		held, _ := n.MarshalText()
		_, _ = (n + 1234).MarshalText()
		_, _ = roman.DefaultFormatter(nil, n+77, roman.DefaultFormat)
		hs := n.String()
		_ = (n + 1234).String()
		e["held"], e["helds"] = S(held), S(hs)
		e["vs"], e["vR"], e["vr"] = S(fmt.Sprintf("%s", n)), S(fmt.Sprintf("%R", n)), S(fmt.Sprintf("%r", n))
		e["vL"], e["vl"] = S(fmt.Sprintf("%L", n)), S(fmt.Sprintf("%l", n))
		var r roman.Number = 987654
		if err := r.UnmarshalText(reused(mt)); err != nil {
			e["back"] = -1
		} else {
			e["back"] = clampN(r)
		}
		// one read buffer: the standard numeral of n, then refilled with the numeral of a neighbour of
		// the same length (IV / VI, XL / LX ...) and parsed again
		t1 := ownRoman(int(n))
		sib := int(n) + 1
		for _, dlt := range []int{2, -2, 1, -1, 4, -4, 20, -20, 200, -200, 10, -10, 100, -100, 1000} {
			if c := int(n) + dlt; c >= 0 && len(ownRoman(c)) == len(t1) {
				sib = c
				break
			}
		}
		pr := func(t string) int {
			v, err := roman.DefaultParser(reused([]byte(t)), 0)
			if err != nil {
				return -1
			}
			return clampN(v)
		}
		e["reuse"], e["sibn"], e["sibtext"] = []int{pr(t1), pr(ownRoman(sib))}, sib, ownRoman(sib)
		return e
	}

	// C10 / C18: DefaultParser and Valid on arbitrary bytes
	ops["roman.parse"] = func(e Ev) Ev {
		in := fromB(e["in"])
		rule := roman.Rule(num(e["rule"]))
		var verr error
		vp := false
		valid := func() {
			vp = try(func() {
				switch str(e["T"]) {
				case "s":
					verr = roman.Valid(string(in), rule)
				case "S":
					verr = roman.Valid(myStr(in), rule)
				case "B":
					verr = roman.Valid(myBytes(in), rule)
				default:
					verr = roman.Valid(in, rule)
				}
			})
		}
		if e["vfirst"] == true { // Valid before the parser
			valid()
		}
		n, err, p := romanParse(in, rule, str(e["T"]))
		e["panic"] = p
		e["ok"] = err == nil && !p
		e["v"] = clampN(n)
		e["typed"] = err != nil && romanTyped(err)
		e["is"] = romanIs(err)
		e["echo"] = err != nil && containsBytes(err.Error(), in)
		if e["vfirst"] != true {
			valid()
		}
		e["panic"] = p || vp
		e["vok"] = verr == nil && !vp
		e["vtyped"] = verr != nil && romanTyped(verr)
		e["vis"] = romanIs(verr)
		return e
	}

	// C10 graph: every string over {I,V,X,L,C,D,M} up to a length, upper case through
	// DefaultParser[string]; lower case, two mixed patterns, []byte, Valid and UnmarshalText
	// must give the same outcome and value - any difference is an anomaly.
	graphs["g10"] = func(tier string, g *graphOut) {
		oldMax := roman.MaxInputLength
		defer func() { roman.MaxInputLength = oldMax }()
		roman.MaxInputLength = 128
		maxLen := 7
		if tier == "thorough" {
			maxLen = 8
		}
		g.Domain = "strings over {I,V,X,L,C,D,M} up to length maxLen; upper case primary, lower/mixed case + []byte + Valid + UnmarshalText compared"
		variants := func(s []byte) [][]byte {
			lo := make([]byte, len(s))
			m1 := make([]byte, len(s))
			m2 := make([]byte, len(s))
			for i, c := range s {
				lo[i] = c + 32
				m1[i], m2[i] = c, c+32
				if i%2 == 1 {
					m1[i], m2[i] = c+32, c
				}
			}
			return [][]byte{lo, m1, m2}
		}
		enumStrings([]byte("IVXLCDM"), maxLen, nil, 0, func(s []byte) {
			g.Total++
			n, err, p := romanParse(s, 0, "s")
			if p {
				g.Anomalies = append(g.Anomalies, []any{B(s), "panic"})
				return
			}
			ok := err == nil
			if ok {
				g.Accepted = append(g.Accepted, []any{B(s), clampN(n)})
			} else if !romanTyped(err) || n != 0 || len(romanIs(err)) != 0 {
				g.Anomalies = append(g.Anomalies, []any{B(s), "rejection is not a typed error with zero result"})
			}
			bad := ""
			for vi, v := range variants(s) {
				n2, err2, p2 := romanParse(v, 0, "s")
				if p2 || (err2 == nil) != ok || n2 != n {
					bad = fmt.Sprintf("case variant %d differs", vi)
				}
				if (roman.Valid(v, 0) == nil) != ok {
					bad = fmt.Sprintf("Valid on case variant %d differs", vi)
				}
			}
			n3, err3, p3 := romanParse(s, 0, "b")
			if p3 || (err3 == nil) != ok || n3 != n {
				bad = "[]byte instantiation differs"
			}
			if (roman.Valid(string(s), 0) == nil) != ok {
				bad = "Valid differs from parser"
			}
			var r roman.Number = 424242
			uerr := r.UnmarshalText(s)
			if len(s) > 0 && ((uerr == nil) != ok || (ok && r != n) || (!ok && r != 424242)) {
				bad = "UnmarshalText differs"
			}
			_, errR, _ := romanParse(s, roman.RuleDisableEmptyAsZero, "s")
			if len(s) > 0 && (errR == nil) != ok {
				bad = "RuleDisableEmptyAsZero changes a non-empty text"
			}
			if bad != "" {
				g.Anomalies = append(g.Anomalies, []any{B(s), bad})
			}
		})
	}
}
