package main

import (
	"bytes"
	"encoding/json"
	"strconv"
	"time"

	"go.lstv.dev/util/date"
	"go.lstv.dev/util/roman"
	"go.lstv.dev/util/sem"
	"go.lstv.dev/util/size"
	"go.lstv.dev/util/uu"
)

type myStr string
type myBytes []byte

// value codecs: the JSON form of a value of each package
func encVal(pkg string, v any) any {
	switch x := v.(type) {
	case date.Date:
		return ymd(x)
	case roman.Number:
		return clampN(x)
	case sem.Ver:
		return verEv(x)
	case size.Size:
		return dig(uint64(x))
	case uu.ID:
		return nibbles(x)
	}
	fatal("encVal %T", v)
	return nil
}

func init() {
	// C16: DefaultFormatter of each package onto a caller-owned buffer with a prefix and spare capacity
	ops["fmt.append"] = func(e Ev) Ev {
		prefix := fromB(e["prefix"])
		spare := num(e["spare"])
		flags := num(e["flags"])
		backing := make([]byte, len(prefix), len(prefix)+spare)
		copy(backing, prefix)
		caller := backing[: len(prefix) : len(prefix)+spare] // the caller's own view of its bytes
		var call, other func(buf []byte) ([]byte, error)     // other: the same formatter on a different value
		switch str(e["pkg"]) {
		case "date":
			v := mkDate(e["val"])
			call = func(buf []byte) ([]byte, error) { return date.DefaultFormatter(buf, v, date.Format(flags)) }
			other = func(buf []byte) ([]byte, error) {
				return date.DefaultFormatter(buf, v.Add(1, 1, 1), date.Format(flags))
			}
		case "roman":
			v := roman.Number(num(e["val"]))
			call = func(buf []byte) ([]byte, error) { return roman.DefaultFormatter(buf, v, roman.Format(flags)) }
			other = func(buf []byte) ([]byte, error) { return roman.DefaultFormatter(buf, v+1234, roman.Format(flags)) }
		case "sem":
			v := mkVer(e["val"])
			call = func(buf []byte) ([]byte, error) { return sem.DefaultFormatter(buf, v, sem.Format(flags)) }
			other = func(buf []byte) ([]byte, error) {
				return sem.DefaultFormatter(buf, sem.Ver{Major: v.Major / 2, Minor: 5, PreRelease: "o"}, sem.Format(flags))
			}
		case "size":
			v := size.Size(fromDig(e["val"]))
			call = func(buf []byte) ([]byte, error) { return size.DefaultFormatter(buf, v, size.Format(flags)) }
			other = func(buf []byte) ([]byte, error) { return size.DefaultFormatter(buf, v/3+777, size.Format(flags)) }
		case "uu":
			v := mkID(e["val"])
			call = func(buf []byte) ([]byte, error) { return uu.DefaultFormatter(buf, v, uu.Format(flags)) }
			other = func(buf []byte) ([]byte, error) {
				return uu.DefaultFormatter(buf, uu.ID{Higher: ^v.Higher, Lower: v.Lower + 1}, uu.Format(flags))
			}
		default:
			fatal("fmt.append pkg")
		}
		// the reference: the bytes produced on an empty buffer (copied, then another value is
		// formatted so that nothing the formatter may remember refers to this value any more)
		ref, err1 := call(nil)
		nilout := append([]byte(nil), ref...)
		_, _ = other(make([]byte, 0, 8))
		var out []byte
		var err2 error
		e["panic"] = try(func() { out, err2 = call(caller) })
		e["ok"] = err1 == nil && err2 == nil
		e["nilout"], e["out"] = B(nilout), B(out)
		e["preafter"] = B(backing[:len(prefix)])
		// buffer reuse, directly after the call above: the returned slice is truncated, refilled
		// with a longer prefix and used again for the same value
		p2 := append(append(out[:0], prefix...), "##reuse##"...)
		want2 := append([]byte(nil), p2...)
		var out2, c3 []byte
		p2nd := try(func() {
			out2, _ = call(p2)
			// chained use: the result of one call is the buffer of the next
			c1, _ := call(nil)
			c2, _ := call(c1)
			c3, _ = call(c2)
		})
		e["panic"] = e["panic"] == true || p2nd
		e["reusepre"], e["reuseout"] = B(want2), B(out2)
		e["chain"] = B(c3)
		return e
	}

	// C17: one Unmarshal* / Scan call on a receiver holding "pre"
	ops["recv.call"] = func(e Ev) Ev {
		in := fromB(e["in"])
		buf := make([]byte, len(in), len(in)+8)
		copy(buf, in)
		kind := str(e["kind"])
		var err error
		var get func() any
		var p bool
		switch str(e["pkg"]) {
		case "date":
			r := mkDate(e["pre"])
			get = func() any { return ymd(r) }
			p = try(func() {
				switch kind {
				case "text":
					err = r.UnmarshalText(buf)
				case "json":
					err = json.Unmarshal(buf, &r)
				case "binary":
					err = r.UnmarshalBinary(buf)
				case "scan":
					var src any
					switch str(e["srck"]) {
					case "time":
						a := ints(e["srct"])
						src = time.Date(a[0], time.Month(a[1]), a[2], a[3], 0, 0, 0, time.FixedZone("z", a[4]))
					case "string":
						src = string(buf)
					case "bytes":
						src = buf
					case "nil":
						src = nil
					case "int":
						src = len(buf)
					case "ptime":
						t := time.Now()
						src = &t
					}
					err = r.Scan(src)
				}
			})
		case "roman":
			r := roman.Number(num(e["pre"]))
			get = func() any { return clampN(r) }
			p = try(func() {
				if kind == "json" {
					err = json.Unmarshal(buf, &r)
				} else {
					err = r.UnmarshalText(buf)
				}
			})
		case "sem":
			r := mkVer(e["pre"])
			get = func() any { return verEv(r) }
			p = try(func() {
				if kind == "json" {
					err = json.Unmarshal(buf, &r)
				} else {
					err = r.UnmarshalText(buf)
				}
			})
		case "size":
			r := size.Size(fromDig(e["pre"]))
			get = func() any { return dig(uint64(r)) }
			p = try(func() {
				if kind == "json" {
					err = r.UnmarshalJSON(buf)
				} else {
					err = r.UnmarshalText(buf)
				}
			})
		case "uu":
			r := mkID(e["pre"])
			get = func() any { return nibbles(r) }
			p = try(func() {
				if kind == "json" {
					err = json.Unmarshal(buf, &r)
				} else {
					err = r.UnmarshalText(buf)
				}
			})
		default:
			fatal("recv.call pkg")
		}
		e["panic"] = p
		e["ok"] = err == nil && !p
		e["after"] = get()
		e["inmod"] = !bytes.Equal(buf, in)
		for i := range buf {
			buf[i] ^= 0xff
		}
		e["after2"] = get()
		return e
	}

	// C17: the same content through string, []byte, named string and named []byte instantiations
	ops["twin"] = func(e Ev) Ev {
		in := fromB(e["in"])
		rule := num(e["rule"])
		fn := str(e["fn"])
		b1 := append(make([]byte, 0, len(in)+4), in...)
		b2 := myBytes(append(make([]byte, 0, len(in)+4), in...))
		var vals [4]any
		var errs [4]error
		p := try(func() {
			switch str(e["pkg"]) {
			case "date":
				var v [4]date.Date
				v[0], errs[0] = date.DefaultParser(string(in), date.Rule(rule))
				v[1], errs[1] = date.DefaultParser(b1, date.Rule(rule))
				v[2], errs[2] = date.DefaultParser(myStr(in), date.Rule(rule))
				v[3], errs[3] = date.DefaultParser(b2, date.Rule(rule))
				for i := range v {
					vals[i] = v[i]
				}
			case "roman":
				var v [4]roman.Number
				if fn == "Valid" {
					errs[0], errs[1], errs[2], errs[3] = roman.Valid(string(in), roman.Rule(rule)), roman.Valid(b1, roman.Rule(rule)), roman.Valid(myStr(in), roman.Rule(rule)), roman.Valid(b2, roman.Rule(rule))
				} else {
					v[0], errs[0] = roman.DefaultParser(string(in), roman.Rule(rule))
					v[1], errs[1] = roman.DefaultParser(b1, roman.Rule(rule))
					v[2], errs[2] = roman.DefaultParser(myStr(in), roman.Rule(rule))
					v[3], errs[3] = roman.DefaultParser(b2, roman.Rule(rule))
				}
				for i := range v {
					vals[i] = v[i]
				}
			case "sem":
				var v [4]sem.Ver
				switch fn {
				case "Parse":
					v[0], errs[0] = sem.Parse(string(in))
					v[1], errs[1] = sem.Parse(b1)
					v[2], errs[2] = sem.Parse(myStr(in))
					v[3], errs[3] = sem.Parse(b2)
				case "ParseVersion":
					v[0], errs[0] = sem.ParseVersion(string(in))
					v[1], errs[1] = sem.ParseVersion(b1)
					v[2], errs[2] = sem.ParseVersion(myStr(in))
					v[3], errs[3] = sem.ParseVersion(b2)
				case "ParseTag":
					v[0], errs[0] = sem.ParseTag(string(in))
					v[1], errs[1] = sem.ParseTag(b1)
					v[2], errs[2] = sem.ParseTag(myStr(in))
					v[3], errs[3] = sem.ParseTag(b2)
				default:
					v[0], errs[0] = sem.DefaultParser(string(in), sem.Rule(rule))
					v[1], errs[1] = sem.DefaultParser(b1, sem.Rule(rule))
					v[2], errs[2] = sem.DefaultParser(myStr(in), sem.Rule(rule))
					v[3], errs[3] = sem.DefaultParser(b2, sem.Rule(rule))
				}
				for i := range v {
					vals[i] = v[i]
				}
			case "size":
				var v [4]size.Size
				v[0], errs[0] = size.DefaultParser(string(in), size.Rule(rule))
				v[1], errs[1] = size.DefaultParser(b1, size.Rule(rule))
				v[2], errs[2] = size.DefaultParser(myStr(in), size.Rule(rule))
				v[3], errs[3] = size.DefaultParser(b2, size.Rule(rule))
				for i := range v {
					vals[i] = v[i]
				}
			case "uu":
				var v [4]uu.ID
				v[0], errs[0] = uu.DefaultParser(string(in), uu.Rule(rule))
				v[1], errs[1] = uu.DefaultParser(b1, uu.Rule(rule))
				v[2], errs[2] = uu.DefaultParser(myStr(in), uu.Rule(rule))
				v[3], errs[3] = uu.DefaultParser(b2, uu.Rule(rule))
				for i := range v {
					vals[i] = v[i]
				}
			default:
				fatal("twin pkg")
			}
		})
		e["panic"] = p
		oks := make([]int, 4)
		out := make([]any, 4)
		eq := true
		for i := 0; i < 4; i++ {
			oks[i] = b2i(errs[i] == nil)
			if vals[i] != nil {
				out[i] = encVal(str(e["pkg"]), vals[i])
			} else {
				out[i] = 0
			}
			m0, mi := "", ""
			if errs[0] != nil {
				m0 = errs[0].Error()
			}
			if errs[i] != nil {
				mi = errs[i].Error()
			}
			if m0 != mi {
				eq = false
			}
		}
		e["oks"], e["vals"], e["eqmsg"] = oks, out, eq
		e["inmod"] = !bytes.Equal(b1, in) || !bytes.Equal(b2, in)
		// overwrite the byte inputs: the values parsed earlier must not change
		for i := range b1 {
			b1[i] ^= 0xff
			b2[i] ^= 0xff
		}
		same := true
		for i := 0; i < 4; i++ {
			if vals[i] != nil {
				x, _ := json.Marshal(encVal(str(e["pkg"]), vals[i]))
				y, _ := json.Marshal(out[i])
				if string(x) != string(y) {
					same = false
				}
			}
		}
		e["scribbleok"] = same
		return e
	}

	// C17: one caller buffer, two records. The buffer holds text a and is parsed; the caller refills it
	// with text b (often of the same length) and parses again; then the caller scrubs the buffer and
	// parses b as a string. String and bytes must agree on b; unmarshalling b into a receiver that
	// holds the value of a must leave it alone when b is refused.
	ops["twin2"] = func(e Ev) Ev {
		a, b := fromB(e["a"]), fromB(e["b"])
		rule := num(e["rule"])
		pkg := str(e["pkg"])
		parseB := func(x []byte) (any, error) {
			switch pkg {
			case "date":
				return date.DefaultParser(x, date.Rule(rule))
			case "roman":
				return roman.DefaultParser(x, roman.Rule(rule))
			case "sem":
				return sem.DefaultParser(x, sem.Rule(rule))
			case "size":
				return size.DefaultParser(x, size.Rule(rule))
			}
			return uu.DefaultParser(x, uu.Rule(rule))
		}
		parseS := func(x string) (any, error) {
			switch pkg {
			case "date":
				return date.DefaultParser(x, date.Rule(rule))
			case "roman":
				return roman.DefaultParser(x, roman.Rule(rule))
			case "sem":
				return sem.DefaultParser(x, sem.Rule(rule))
			case "size":
				return size.DefaultParser(x, size.Rule(rule))
			}
			return uu.DefaultParser(x, uu.Rule(rule))
		}
		var vb, vs any
		var eb, es error
		mb := ""
		e["panic"] = try(func() {
			buf := reused(a)
			_, _ = parseB(buf)
			buf = reused(b) // the same backing array, refilled
			vb, eb = parseB(buf)
			if eb != nil {
				mb = eb.Error() // the message as it reads when the call returns
			}
			for i := range buf {
				buf[i] = '#'
			}
			vs, es = parseS(string(b))
		})
		msg := func(err error) string {
			if err == nil {
				return ""
			}
			return err.Error()
		}
		enc := func(v any) any {
			if v == nil {
				return 0
			}
			return encVal(pkg, v)
		}
		e["oks"], e["vals"], e["eqmsg"] = []int{b2i(es == nil), b2i(eb == nil)}, []any{enc(vs), enc(vb)}, msg(es) == mb
		e["inmod"], e["scribbleok"] = false, true
		return e
	}

	// C18: comparators and Valid on arbitrary bytes
	ops["sem.cmpraw"] = func(e Ev) Ev {
		a, b := fromB(e["a"]), fromB(e["b"])
		res := []int{}
		p := try(func() {
			res = append(res, sem.DefaultComparePreRelease(string(a), string(b)))
			res = append(res, sem.DefaultComparePreRelease(a, string(b)))
			res = append(res, sem.DefaultComparePreRelease(string(a), b))
			res = append(res, sem.Ver{Major: 1, PreRelease: string(a)}.Compare(sem.Ver{Major: 1, PreRelease: string(b)}))
			res = append(res, sem.Ver{Major: 1, PreRelease: string(a), Build: string(b)}.Compare(sem.Ver{Major: 1, PreRelease: string(b), Build: string(a)}))
			l := sem.Ver{PreRelease: string(a)}.Latest(sem.Ver{PreRelease: string(b)})
			_ = l
			_ = sem.Ver{PreRelease: string(a), Build: string(b)}.Valid()
			_ = sem.Ver{PreRelease: string(b), Build: string(a)}.String()
		})
		e["panic"] = p
		e["res"] = res
		return e
	}
}

var _ = strconv.Itoa
