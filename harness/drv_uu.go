package main

func init() {
	// C05: exact text form, strict parser, accessors
	drivers["c05"] = func(d *Drv) {
		d.Do(Ev{"op": "uu.set", "max": 45})
		fmtID := func(id []int) { d.Do(Ev{"op": "uu.fmt", "id": id}); d.S.Boundary() }
		parse := func(in []byte, rule int, T string) {
			d.Do(Ev{"op": "uu.parse", "in": B(in), "rule": rule, "T": T})
			d.S.Boundary()
		}
		rnd := func() []int {
			id := make([]int, 32)
			for i := range id {
				id[i] = d.R.Intn(16)
			}
			return id
		}
		text := func(id []int) []byte {
			const hex = "0123456789abcdef"
			out := []byte{}
			for i, n := range id {
				if i == 8 || i == 12 || i == 16 || i == 20 {
					out = append(out, '-')
				}
				out = append(out, hex[n])
			}
			return out
		}
		zero := make([]int, 32)
		ones := make([]int, 32)
		for i := range ones {
			ones[i] = 15
		}
		bgs := [][]int{zero, ones, rnd(), rnd()}
		// (1) single-bit IDs and every nibble value at every position over several backgrounds
		for bi, bg := range bgs {
			for pos := 0; pos < 32; pos++ {
				if !d.Mine(bi*32 + pos) {
					continue
				}
				for v := 0; v < 16; v++ {
					id := append([]int{}, bg...)
					id[pos] = v
					fmtID(id)
				}
				for bit := 0; bit < 4; bit++ {
					id := append([]int{}, bg...)
					id[pos] ^= 1 << bit
					fmtID(id)
				}
			}
		}
		nr := 2000
		if d.Thorough() {
			nr = 600000
		}
		for i := 0; i < nr/d.NShards; i++ {
			fmtID(rnd())
		}
		// (2) every single-byte substitution (all 256 values at each of the 36 / 45 positions),
		// insertion and deletion of valid texts, x 4 rules x {string, []byte}
		ids := [][]int{rnd(), ones}
		if d.Thorough() {
			ids = append(ids, rnd(), rnd(), zero)
		}
		k := 0
		for _, id := range ids {
			plain := text(id)
			up := []byte(stringsToUpper(string(plain)))
			for _, v := range [][]byte{plain, up, append([]byte("urn:uuid:"), plain...), append([]byte("URN:uuid:"), up...), append([]byte("uRn:uuid:"), plain...)} {
				for pos := 0; pos < len(v); pos++ {
					k++
					if !d.Mine(k) {
						continue
					}
					for c := 0; c < 256; c++ {
						b := append([]byte{}, v...)
						b[pos] = byte(c)
						rule := (c + pos) % 4
						parse(b, rule, []string{"s", "b"}[(c/4)%2])
						if c%8 == 0 || c == 'G' || c == 'g' || c == '/' || c == ':' || c == '@' || c == '`' {
							for r := 0; r < 4; r++ {
								parse(b, r, "s")
							}
						}
					}
					for _, c := range []byte{'0', 'a', 'F', '-', ' ', 0, 0xff} {
						parse(append(append(append([]byte{}, v[:pos]...), c), v[pos:]...), k%4, "s")
					}
					parse(append(append([]byte{}, v[:pos]...), v[pos+1:]...), k%4, "b")
				}
				for r := 0; r < 4; r++ {
					parse(v, r, "s")
					parse(v, r, "b")
				}
			}
		}
		// (2b) digits outside ASCII in place of hex digits (the text length changes: must be rejected)
		if d.Shard == 2%d.NShards {
			v := string(text(ones))
			for _, cf := range confusables {
				for pos := 0; pos < len(v); pos += 3 {
					parse([]byte(v[:pos]+cf+v[pos+1:]), 0, "s")
				}
			}
		}
		// (3) random texts near the grammar, all rules
		for i := 0; i < nr/d.NShards; i++ {
			v := text(rnd())
			switch d.R.Intn(6) {
			case 0:
				v = []byte(stringsToUpper(string(v)))
			case 1:
				v = append([]byte("urn:uuid:"), v...)
			case 2:
				v = append([]byte("URN:uuid:"), []byte(stringsToUpper(string(v)))...)
			case 3:
				v = append([]byte("urn:UUID:"), v...)
			case 4:
				v[d.R.Intn(len(v))] = byte(d.R.Intn(256))
			}
			parse(v, d.R.Intn(4), []string{"s", "b"}[d.R.Intn(2)])
		}
		// (4) limits
		if d.Shard == 0 {
			v := text(ones)
			u := append([]byte("urn:uuid:"), v...)
			for _, max := range []int{0, 1, 35, 36, 37, 44, 45, 46, 100} {
				d.Do(Ev{"op": "uu.set", "max": max})
				fmtID(ones)
				for _, in := range [][]byte{v, u, v[:35], append(append([]byte{}, v...), 'f'), append(append([]byte{}, u...), 'f'), {}, []byte("x")} {
					for r := 0; r < 4; r++ {
						parse(in, r, "s")
						parse(in, r, "b")
					}
				}
			}
			d.Do(Ev{"op": "uu.set", "max": 45})
		}
	}
}

func stringsToUpper(s string) string {
	b := []byte(s)
	for i, c := range b {
		if c >= 'a' && c <= 'z' {
			b[i] = c - 32
		}
	}
	return string(b)
}
