package main

import (
	"bufio"
	"encoding/json"
	"os"

	"go.lstv.dev/util/date"
	"go.lstv.dev/util/roman"
	"go.lstv.dev/util/sem"
	"go.lstv.dev/util/size"
	"go.lstv.dev/util/uu"
)

// Persistent receivers, one per package: the real counterpart of dRecv, rRecv, sRecv, zRecv,
// uRecv of the specification. They live as long as the harness process, so a behaviour of
// Util.tla is stepped through real variables.
var (
	recvDate  date.Date
	recvRoman roman.Number
	recvSem   sem.Ver
	recvSize  size.Size
	recvUU    uu.ID
)

func init() {
	// back to the specification's initial state: default configuration, zero receivers
	ops["util.reset"] = func(e Ev) Ev {
		date.MaxInputLength, roman.MaxInputLength, sem.MaxInputLength, size.MaxInputLength, uu.MaxInputLength = 10, 128, 1024, 128, 45
		roman.DefaultFormat = 0
		size.DisableMarshalTextUnit, size.DisableMarshalJSONStringForm, size.DisableMarshalJSONObjectForm = false, false, false
		size.DefaultRule = size.RuleEnableJSONStringForm | size.RuleEnableJSONObjectForm
		size.MaxObjectKeys = 16
		recvDate, recvRoman, recvSem, recvSize, recvUU = date.Date{}, 0, sem.Ver{}, 0, uu.ID{}
		return e
	}
	utext := func(pkg string, call func(in []byte) error, get func() any) {
		ops[pkg+".utext"] = func(e Ev) Ev {
			in := fromB(e["in"])
			var err error
			p := try(func() { err = call(in) })
			e["panic"] = p
			e["ok"] = err == nil && !p
			e["recv"] = get()
			return e
		}
	}
	utext("date", func(in []byte) error { return recvDate.UnmarshalText(in) }, func() any { return ymd(recvDate) })
	utext("roman", func(in []byte) error { return recvRoman.UnmarshalText(in) }, func() any { return clampN(recvRoman) })
	utext("sem", func(in []byte) error { return recvSem.UnmarshalText(in) }, func() any { return verEv(recvSem) })
	utext("size", func(in []byte) error { return recvSize.UnmarshalText(in) }, func() any { return dig(uint64(recvSize)) })
	utext("uu", func(in []byte) error { return recvUU.UnmarshalText(in) }, func() any { return nibbles(recvUU) })

	// util: replays the behaviours TLC simulated from Util.tla (VERIF_BEH: one JSON array of
	// requests per line); every behaviour starts from util.reset
	drivers["util"] = func(d *Drv) {
		f, err := os.Open(os.Getenv("VERIF_BEH"))
		if err != nil {
			fatal("util: behaviours: %v", err)
		}
		defer f.Close()
		sc := bufio.NewScanner(f)
		sc.Buffer(make([]byte, 1<<20), 1<<26)
		n := 0
		for sc.Scan() {
			n++
			if !d.Mine(n) {
				continue
			}
			var reqs []any
			dec := json.NewDecoder(bytesReader(sc.Bytes()))
			dec.UseNumber()
			if err := dec.Decode(&reqs); err != nil {
				fatal("util: behaviour %d: %v", n, err)
			}
			d.Do(Ev{"op": "util.reset", "st": 1})
			for _, r := range reqs {
				req := Ev(normalize(r).(map[string]any))
				req["st"] = 1
				d.Do(req)
			}
			d.S.Boundary()
		}
	}
}
